//go:build verif

package taskloop

// C10 (a): the task loop runs tasks one at a time; Run returns nil exactly when the task
// ran once to completion before the return, an error exactly when it never ran; no task
// starts after Close returned; the close callback runs once after the last task.
// History monitor over instrumented tasks with one global atomic sequence, concurrent
// submitters / cancellers / closers and seeded pauses at hook H2.

import (
	"context"
	"encoding/json"
	"errors"
	"fmt"
	"math/rand/v2"
	"os"
	"path/filepath"
	"runtime"
	"sort"
	"strconv"
	"strings"
	"sync"
	"sync/atomic"
	"testing"
	"time"

	"github.com/pion/ice/v4/internal/verifhook"
)

type vfLoopResult struct {
	Property     string              `json:"property"`
	Shard        int                 `json:"shard"`
	Evaluations  int64               `json:"evaluations"`
	DistinctKeys []string            `json:"distinct_keys"`
	Samples      []any               `json:"samples"`
	Violations   []map[string]any    `json:"violations"`
	Inconclusive int64               `json:"inconclusive"`
	OutOfScope   int64               `json:"out_of_scope"`
	Counters     map[string]int64    `json:"counters"`
	Sets         map[string][]string `json:"sets"`
	Notes        []string            `json:"notes"`
	WallS        float64             `json:"wall_s"`
	Done         bool                `json:"done"`
}

type vfTaskRec struct {
	exec    atomic.Int32
	start   atomic.Int64
	end     atomic.Int64
	ret     int64 // sequence number taken right after Run returned
	err     error
	ctxKind string
}

func TestVerifC10Loop(t *testing.T) { //nolint:cyclop,maintidx
	seed := uint64(1)
	if v, err := strconv.ParseInt(os.Getenv("VERIF_SEED"), 10, 64); err == nil {
		seed = uint64(v) //nolint:gosec
	}
	tier := os.Getenv("VERIF_TIER")
	shard, nshards := 0, 1
	if p := strings.Split(os.Getenv("VERIF_SHARD"), "/"); len(p) == 2 {
		shard, _ = strconv.Atoi(p[0])
		nshards, _ = strconv.Atoi(p[1])
	}
	scale := 1.0
	if v, err := strconv.ParseFloat(os.Getenv("VERIF_SCALE"), 64); err == nil && v > 0 {
		scale = v
	}
	out := os.Getenv("VERIF_OUT")
	if out == "" {
		out = os.TempDir()
	}
	n := 8000
	if tier == "thorough" {
		n = 100000
	}
	n = int(float64(n)*scale) / nshards
	if n < 1 {
		n = 1
	}
	start := time.Now()
	res := &vfLoopResult{Property: "C10", Shard: shard, Counters: map[string]int64{}, Sets: map[string][]string{}}
	distinct := map[string]bool{}
	orderings := map[string]bool{}
	outcomes := map[string]bool{}
	nviol := 0
	violation := func(sig, msg string, wit any) {
		nviol++
		if len(res.Violations) >= 40 {
			return
		}
		path := filepath.Join(out, fmt.Sprintf("violation-loop-s%d-%d.json", shard, nviol))
		b, _ := json.MarshalIndent(map[string]any{"property": "C10", "seed": seed, "tier": tier, "shard": shard, "nshards": nshards, "sig": sig, "msg": msg, "witness": wit}, "", " ")
		_ = os.WriteFile(path, b, 0o644) //nolint:gosec
		res.Violations = append(res.Violations, map[string]any{"sig": sig, "msg": msg, "replay": path})
	}

	// hook H2: seeded pauses; the sequence of sites hit is the "interleaving observed"
	var ymu sync.Mutex
	var yrng *rand.Rand
	var ytrace []byte
	yprob := 0
	verifhook.SetYield(func(site string) {
		ymu.Lock()
		c := byte('?')
		switch site {
		case "taskloop.Run.beforeSelect":
			c = 'R'
		case "taskloop.runLoop.beforeTask":
			c = 'b'
		case "taskloop.runLoop.afterTask":
			c = 'a'
		case "taskloop.Close.afterDone":
			c = 'C'
		}
		if len(ytrace) < 64 {
			ytrace = append(ytrace, c)
		}
		pause := 0
		if yrng != nil && yprob > 0 && yrng.IntN(100) < yprob {
			pause = 1 + yrng.IntN(60)
		}
		ymu.Unlock()
		if pause > 0 {
			if pause < 20 {
				runtime.Gosched()
			} else {
				time.Sleep(time.Duration(pause) * time.Microsecond)
			}
		}
	})
	defer verifhook.SetYield(nil)

	for idx := 0; idx < n; idx++ {
		rng := rand.New(rand.NewPCG(seed*0x9E3779B97F4A7C15+uint64(shard)*1000003+uint64(idx), 0xC10)) //nolint:gosec
		ymu.Lock()
		yrng = rand.New(rand.NewPCG(seed+uint64(idx), 7)) //nolint:gosec
		yprob = []int{0, 10, 40, 80}[rng.IntN(4)]
		ytrace = ytrace[:0]
		ymu.Unlock()

		var seq atomic.Int64
		var inFlight atomic.Int32
		var overlap atomic.Int32
		var onClose atomic.Int32
		var onCloseSeq atomic.Int64
		loop := New(func() {
			onClose.Add(1)
			onCloseSeq.Store(seq.Add(1))
		})
		nSub := 2 + rng.IntN(15)
		perSub := 1 + rng.IntN(12)
		nClosers := 1 + rng.IntN(3)
		usePreStop := rng.IntN(2) == 0
		closeAfter := time.Duration(rng.IntN(300)) * time.Microsecond
		recs := make([][]*vfTaskRec, nSub)
		var wg sync.WaitGroup
		closeRets := make([]int64, nClosers)
		var preStopRuns atomic.Int32
		for si := 0; si < nSub; si++ {
			recs[si] = make([]*vfTaskRec, perSub)
			for k := range recs[si] {
				recs[si][k] = &vfTaskRec{}
			}
			srng := rand.New(rand.NewPCG(seed+uint64(idx)*131+uint64(si), 99)) //nolint:gosec
			wg.Add(1)
			go func(si int) {
				defer wg.Done()
				for k := 0; k < perSub; k++ {
					rec := recs[si][k]
					ctx := context.Background()
					var cancel context.CancelFunc
					switch srng.IntN(6) {
					case 0:
						ctx, cancel = context.WithCancel(ctx)
						cancel()
						rec.ctxKind = "pre-cancelled"
					case 1:
						ctx, cancel = context.WithCancel(ctx)
						rec.ctxKind = "cancelled-while-waiting"
						d := time.Duration(srng.IntN(80)) * time.Microsecond
						go func() { time.Sleep(d); cancel() }()
					case 2:
						ctx = loop
						rec.ctxKind = "loop-as-context"
					default:
						rec.ctxKind = "live"
					}
					work := srng.IntN(4)
					rec.err = loop.Run(ctx, func(context.Context) {
						if inFlight.Add(1) != 1 {
							overlap.Add(1)
						}
						rec.exec.Add(1)
						rec.start.Store(seq.Add(1))
						switch work {
						case 1:
							runtime.Gosched()
						case 2:
							time.Sleep(time.Duration(1+srng.IntN(20)) * time.Microsecond)
						}
						rec.end.Store(seq.Add(1))
						inFlight.Add(-1)
					})
					rec.ret = seq.Add(1)
					if cancel != nil && rec.ctxKind == "pre-cancelled" {
						cancel()
					}
				}
			}(si)
		}
		for ci := 0; ci < nClosers; ci++ {
			wg.Add(1)
			crng := rand.New(rand.NewPCG(seed+uint64(idx)*977+uint64(ci), 5)) //nolint:gosec
			go func(ci int) {
				defer wg.Done()
				time.Sleep(closeAfter + time.Duration(crng.IntN(100))*time.Microsecond)
				if usePreStop {
					loop.CloseWithPreStop(func() { preStopRuns.Add(1) })
				} else {
					loop.Close()
				}
				closeRets[ci] = seq.Add(1)
			}(ci)
		}
		done := make(chan struct{})
		go func() { wg.Wait(); close(done) }()
		select {
		case <-done:
		case <-time.After(60 * time.Second):
			buf := make([]byte, 1<<20)
			buf = buf[:runtime.Stack(buf, true)]
			violation("loop-history-stuck", fmt.Sprintf("history %d (%d submitters x %d tasks, %d closers) did not finish within 60 s", idx, nSub, perSub, nClosers), map[string]any{"idx": idx, "stacks": string(buf)})
			res.Evaluations++

			goto finish
		}
		{
			res.Evaluations++
			wit := map[string]any{"idx": idx, "submitters": nSub, "tasks_each": perSub, "closers": nClosers, "prestop": usePreStop, "yield_percent": yprob}
			if overlap.Load() != 0 {
				violation("loop-overlap", fmt.Sprintf("history %d: %d task(s) started while another task was running", idx, overlap.Load()), wit)
			}
			minCloseRet := int64(1 << 62)
			for _, c := range closeRets {
				if c < minCloseRet {
					minCloseRet = c
				}
			}
			var maxEnd int64
			ran, okRuns, errRuns := 0, 0, 0
			for si := range recs {
				for k, rec := range recs[si] {
					ex := rec.exec.Load()
					if ex > 0 {
						ran++
					}
					if rec.end.Load() > maxEnd {
						maxEnd = rec.end.Load()
					}
					kind := "nil"
					switch {
					case rec.err == nil:
						okRuns++
						if ex != 1 || rec.end.Load() == 0 || rec.end.Load() > rec.ret {
							violation("loop-nil-without-complete-run", fmt.Sprintf("history %d task %d/%d (%s): Run returned nil but the task ran %d time(s), end seq %d, return seq %d", idx, si, k, rec.ctxKind, ex, rec.end.Load(), rec.ret), wit)
						}
					default:
						errRuns++
						kind = "closed"
						if errors.Is(rec.err, context.Canceled) {
							kind = "ctx"
						} else if !errors.Is(rec.err, ErrClosed) {
							kind = "other:" + rec.err.Error()
						}
						if ex != 0 {
							violation("loop-error-but-ran:"+kind, fmt.Sprintf("history %d task %d/%d (%s): Run returned %v but the task ran %d time(s)", idx, si, k, rec.ctxKind, rec.err, ex), wit)
						}
					}
					outcomes[rec.ctxKind+"->"+kind] = true
					if ex > 0 && rec.start.Load() > minCloseRet {
						violation("loop-task-after-close", fmt.Sprintf("history %d task %d/%d started (seq %d) after a Close call had returned (seq %d)", idx, si, k, rec.start.Load(), minCloseRet), wit)
					}
				}
			}
			if onClose.Load() != 1 {
				violation("loop-onclose-count", fmt.Sprintf("history %d: the close callback ran %d times", idx, onClose.Load()), wit)
			} else if onCloseSeq.Load() < maxEnd {
				violation("loop-onclose-before-last-task", fmt.Sprintf("history %d: the close callback ran at seq %d, a task ended at seq %d", idx, onCloseSeq.Load(), maxEnd), wit)
			}
			if onCloseSeq.Load() > minCloseRet {
				violation("loop-close-returned-before-onclose", fmt.Sprintf("history %d: Close returned (seq %d) before the close callback ran (seq %d)", idx, minCloseRet, onCloseSeq.Load()), wit)
			}
			if usePreStop && preStopRuns.Load() != 1 {
				violation("loop-prestop-count", fmt.Sprintf("history %d: preStop ran %d times", idx, preStopRuns.Load()), wit)
			}
			// a Run after Close returned must fail without running
			lateRan := false
			if err := loop.Run(context.Background(), func(context.Context) { lateRan = true }); err == nil || lateRan {
				violation("loop-run-after-close", fmt.Sprintf("history %d: Run after Close returned err=%v ran=%v", idx, err, lateRan), wit)
			}
			res.Counters["tasks_submitted"] += int64(nSub * perSub)
			res.Counters["tasks_ran"] += int64(ran)
			res.Counters["run_ok"] += int64(okRuns)
			res.Counters["run_error"] += int64(errRuns)
			ymu.Lock()
			tr := string(ytrace)
			ymu.Unlock()
			orderings[tr] = true
			distinct[fmt.Sprintf("loop/s%d/t%d/c%d/p%v/y%d/ran%d", nSub, perSub, nClosers, usePreStop, yprob, ran*4/(nSub*perSub+1))] = true
			if len(res.Samples) < 3 {
				res.Samples = append(res.Samples, map[string]any{"idx": idx, "submitters": nSub, "tasks_each": perSub, "closers": nClosers, "tasks_ran": ran, "run_ok": okRuns, "run_error": errRuns, "h2_site_sequence_head": tr})
			}
		}
	}
finish:
	for k := range distinct {
		res.DistinctKeys = append(res.DistinctKeys, k)
	}
	sort.Strings(res.DistinctKeys)
	res.Counters["distinct_h2_site_orderings"] = int64(len(orderings))
	for k := range outcomes {
		res.Sets["loop_run_outcomes"] = append(res.Sets["loop_run_outcomes"], k)
	}
	sort.Strings(res.Sets["loop_run_outcomes"])
	res.WallS = time.Since(start).Seconds()
	res.Done = true
	b, _ := json.Marshal(res)
	if err := os.WriteFile(filepath.Join(out, fmt.Sprintf("result-%d.json", shard)), b, 0o644); err != nil { //nolint:gosec
		t.Fatal(err)
	}
}
