//go:build verif

package ice

// C14: ICE-TCP framing preserves packet boundaries.
// Round-trip monitor over a net.Conn that re-chunks the byte stream by a seeded
// partition, plus truncated and hostile streams compared with a reference
// RFC 4571 deframer, through readStreamingPacket/writeStreamingPacket,
// tcpPacketConn and activeTCPConn (real loopback TCP).

import (
	"bytes"
	"context"
	"encoding/binary"
	"errors"
	"fmt"
	"io"
	"math/rand/v2"
	"net"
	"net/netip"
	"os"
	"runtime"
	"strings"
	"sync"
	"sync/atomic"
	"syscall"
	"testing"
	"time"
	"unsafe"

	"github.com/pion/stun/v3"
)

// vfChunkConn serves a fixed byte stream in chunks given by a partition and
// records what the reader asked for.
type vfChunkConn struct {
	mu        sync.Mutex
	stream    []byte
	pos       int
	chunks    []int // sizes; when exhausted the rest is served as the reader asks
	chunkLeft int
	ci        int
	segEnds   []int // offsets at which a header or a body ends (for the over-read monitor)
	overRead  string
	maxReq    int
	reads     int
	written   bytes.Buffer
	closed    bool
	eofCh     chan struct{}
	blockEOF  bool
	remote    net.Addr
	// stalls: stream offsets at which the data "arrives late".  A reader that has a read deadline armed when it gets
	// there sees one timeout error, as it would on a real socket; a reader without a deadline just waits and notices nothing.
	stalls     map[int]bool
	rdl        time.Time
	stallFired int
	// writeGate: the first Write call waits for this channel before it puts its bytes on the wire (a peer whose
	// receive window is closed for a while); later calls go through at once, as concurrent writes to a socket would
	writeGate   chan struct{}
	gateEntered chan struct{} // closed when the first Write has arrived at the gate
}

func (c *vfChunkConn) Read(p []byte) (int, error) {
	c.mu.Lock()
	if c.closed {
		c.mu.Unlock()

		return 0, net.ErrClosed
	}
	c.reads++
	if len(p) > c.maxReq {
		c.maxReq = len(p)
	}
	if c.pos >= len(c.stream) {
		block := c.blockEOF
		ch := c.eofCh
		c.mu.Unlock()
		if block {
			<-ch

			return 0, net.ErrClosed
		}

		return 0, io.EOF
	}
	if len(p) == 0 {
		c.mu.Unlock()

		return 0, nil
	}
	if c.stalls[c.pos] {
		delete(c.stalls, c.pos)
		if !c.rdl.IsZero() {
			c.stallFired++
			c.mu.Unlock()

			return 0, os.ErrDeadlineExceeded
		}
	}
	// over-read monitor: a request must not extend past the end of the current header/body segment
	if c.segEnds != nil && c.overRead == "" {
		for _, e := range c.segEnds {
			if e > c.pos {
				if c.pos+len(p) > e {
					c.overRead = fmt.Sprintf("read of %d bytes requested at stream offset %d, but the current header/body ends at %d", len(p), c.pos, e)
				}

				break
			}
		}
	}
	if c.chunkLeft == 0 {
		if c.ci < len(c.chunks) {
			c.chunkLeft = c.chunks[c.ci]
			c.ci++
		} else {
			c.chunkLeft = len(c.stream) - c.pos
		}
	}
	n := len(p)
	if n > c.chunkLeft {
		n = c.chunkLeft
	}
	if n > len(c.stream)-c.pos {
		n = len(c.stream) - c.pos
	}
	copy(p, c.stream[c.pos:c.pos+n])
	c.pos += n
	c.chunkLeft -= n
	c.mu.Unlock()

	return n, nil
}

func (c *vfChunkConn) Write(p []byte) (int, error) {
	c.mu.Lock()
	g := c.writeGate
	c.writeGate = nil
	c.mu.Unlock()
	if g != nil {
		if c.gateEntered != nil {
			close(c.gateEntered)
		}
		select {
		case <-g:
		case <-time.After(2 * time.Second): // never hold a caller for good
		}
	}
	c.mu.Lock()
	defer c.mu.Unlock()
	if c.closed {
		return 0, net.ErrClosed
	}
	c.written.Write(p)

	return len(p), nil
}

func (c *vfChunkConn) Close() error {
	c.mu.Lock()
	defer c.mu.Unlock()
	if !c.closed {
		c.closed = true
		if c.eofCh != nil {
			close(c.eofCh)
		}
	}

	return nil
}
func (c *vfChunkConn) LocalAddr() net.Addr {
	return &net.TCPAddr{IP: net.IPv4(10, 0, 0, 1), Port: 7000}
}
func (c *vfChunkConn) RemoteAddr() net.Addr {
	if c.remote != nil {
		return c.remote
	}

	return &net.TCPAddr{IP: net.IPv4(10, 0, 0, 2), Port: 7001}
}
func (c *vfChunkConn) SetDeadline(t time.Time) error { return c.SetReadDeadline(t) }
func (c *vfChunkConn) SetReadDeadline(t time.Time) error {
	c.mu.Lock()
	c.rdl = t
	c.mu.Unlock()

	return nil
}
func (c *vfChunkConn) SetWriteDeadline(time.Time) error { return nil }

// vfC14Stalls picks up to three stream offsets in [from, total) for late arrivals (a third of the cases).
func vfC14Stalls(rng *rand.Rand, from, total int) map[int]bool {
	if rng.IntN(3) != 0 || total <= from {
		return nil
	}
	out := map[int]bool{}
	for n := 1 + rng.IntN(3); n > 0; n-- {
		out[from+rng.IntN(total-from)] = true
	}

	return out
}

func vfC14Len(rng *rand.Rand, maxLen int) int {
	switch rng.IntN(10) {
	case 0:
		return 0
	case 1:
		return 1
	case 2:
		return []int{2, 3, 255, 256, 257, 511, 512, 513, 1199, 1200, 1500, 8191, 8192, 8193, 16384, 32767, 32768, 65534, 65535}[rng.IntN(19)]
	case 3:
		return rng.IntN(maxLen + 1)
	case 4:
		return 8192 - rng.IntN(3)
	default:
		return rng.IntN(1400)
	}
}

func vfC14Packets(rng *rand.Rand, maxLen int) [][]byte {
	n := 1 + rng.IntN(20)
	out := make([][]byte, 0, n)
	total := 0
	for i := 0; i < n; i++ {
		l := vfC14Len(rng, maxLen)
		if l > maxLen {
			l = maxLen
		}
		if total+l > 300000 {
			l = rng.IntN(100)
		}
		total += l
		p := make([]byte, l)
		tag := byte(rng.IntN(256))
		for j := range p {
			p[j] = tag + byte(j*7) //nolint:gosec
		}
		if l >= 4 {
			binary.BigEndian.PutUint32(p, uint32(i)<<16|uint32(l&0xffff)) //nolint:gosec
		}
		out = append(out, p)
	}

	return out
}

func vfC14Partition(rng *rand.Rand, total int) ([]int, string) {
	kind := []string{"one-byte", "all-at-once", "header-split", "random-small", "random-large", "per-frame-coalesced"}[rng.IntN(6)]
	var chunks []int
	switch kind {
	case "one-byte":
		n := total
		if n > 6000 {
			n = 6000 // then the rest as asked
		}
		for i := 0; i < n; i++ {
			chunks = append(chunks, 1)
		}
	case "all-at-once":
		chunks = []int{total + 1}
	case "header-split":
		for s := 0; s < total && len(chunks) < 4000; {
			c := 1 + rng.IntN(3)
			chunks = append(chunks, c)
			s += c
		}
	case "random-small":
		for s := 0; s < total && len(chunks) < 8000; {
			c := 1 + rng.IntN(17)
			chunks = append(chunks, c)
			s += c
		}
	case "random-large":
		for s := 0; s < total; {
			c := 1 + rng.IntN(20000)
			chunks = append(chunks, c)
			s += c
		}
	default:
		for s := 0; s < total; {
			c := 1 + rng.IntN(3000)
			chunks = append(chunks, c)
			s += c
		}
	}

	return chunks, kind
}

func vfC14Frame(pkts [][]byte) ([]byte, []int) {
	var stream []byte
	var segEnds []int
	for _, p := range pkts {
		var h [2]byte
		binary.BigEndian.PutUint16(h[:], uint16(len(p))) //nolint:gosec
		stream = append(stream, h[:]...)
		segEnds = append(segEnds, len(stream))
		stream = append(stream, p...)
		if len(p) > 0 {
			segEnds = append(segEnds, len(stream))
		}
	}

	return stream, segEnds
}

func TestVerifC14(t *testing.T) { //nolint:cyclop,maintidx
	vfRun(t, "C14", func(e *vfEnv, r *vfResult) {
		// (A) writer + reader round trip under every partition kind
		nA := e.n(30000, 1500000)
		for i := 0; i < nA; i++ {
			rng := e.rng(i, "roundtrip")
			pkts := vfC14Packets(rng, 65535)
			// writer: real writeStreamingPacket into a capturing conn
			wc := &vfChunkConn{}
			okWrite := true
			for k, p := range pkts {
				var n int
				var err error
				before := wc.written.Len()
				if pn := vfRecover(func() { n, err = writeStreamingPacket(wc, p) }); pn != "" {
					r.violation("write-panic", pn, map[string]any{"len": len(p)})
					okWrite = false

					break
				}
				got := wc.written.Bytes()[before:]
				if err != nil || n != len(p) || len(got) != len(p)+2 || int(binary.BigEndian.Uint16(got)) != len(p) || !bytes.Equal(got[2:], p) {
					r.violation("write-frame", fmt.Sprintf("writeStreamingPacket of packet %d (len %d): n=%d err=%v wire=%d bytes header=%v", k, len(p), n, err, len(got), got[:min(2, len(got))]), map[string]any{"len": len(p), "idx": i})
					okWrite = false

					break
				}
			}
			if !okWrite {
				continue
			}
			stream, segEnds := vfC14Frame(pkts)
			if !bytes.Equal(stream, wc.written.Bytes()) {
				r.violation("write-stream", "concatenated frames differ from the reference framing", map[string]any{"idx": i})

				continue
			}
			chunks, kind := vfC14Partition(rng, len(stream))
			rc := &vfChunkConn{stream: stream, chunks: chunks, segEnds: segEnds}
			bufMode := rng.IntN(4)
			lens := make([]int, len(pkts))
			bad := false
			for k, p := range pkts {
				lens[k] = len(p)
				var buf []byte
				switch bufMode {
				case 0:
					buf = make([]byte, len(p))
				case 1:
					buf = make([]byte, len(p)+rng.IntN(64))
				case 2:
					buf = make([]byte, 65535)
				default:
					buf = make([]byte, max(len(p), 8192))
				}
				var n int
				var err error
				if pn := vfRecover(func() { n, err = readStreamingPacket(rc, buf) }); pn != "" {
					r.violation("read-panic", pn, map[string]any{"idx": i, "lens": lens[:k+1], "partition": kind})
					bad = true

					break
				}
				if err != nil || n != len(p) || !bytes.Equal(buf[:n], p) {
					r.violation("read-sequence:"+kind, fmt.Sprintf("packet %d of %d (len %d, partition %s): got n=%d err=%v, contents equal=%v", k, len(pkts), len(p), kind, n, err, err == nil && n == len(p)),
						map[string]any{"idx": i, "lens": lens[:k+1], "partition": kind, "chunks_head": chunks[:min(20, len(chunks))]})
					bad = true

					break
				}
			}
			if !bad {
				// the stream is exhausted: one more read must fail, never fabricate a packet
				buf := make([]byte, 8192)
				var n int
				var err error
				if pn := vfRecover(func() { n, err = readStreamingPacket(rc, buf) }); pn != "" {
					r.violation("read-panic", pn, map[string]any{"idx": i, "at": "eof"})
				} else if err == nil {
					r.violation("read-fabricated", fmt.Sprintf("read after end of stream returned a packet of %d bytes", n), map[string]any{"idx": i})
				}
			}
			if rc.overRead != "" {
				r.violation("read-overread", rc.overRead, map[string]any{"idx": i, "lens": lens, "partition": kind})
			}
			r.eval(1)
			r.count("packets_roundtripped", int64(len(pkts)))
			r.set("partitions", kind)
			r.distinct(fmt.Sprintf("rt/%s/buf%d/n%d/max%d", kind, bufMode, len(pkts)/4, vfC14MaxBucket(lens)))
			if i < 2 {
				r.sample(map[string]any{"kind": "roundtrip", "packet_lengths": lens, "partition": kind, "chunks_head": chunks[:min(12, len(chunks))], "buffer_mode": bufMode})
			}
		}

		// (B) over-long packets on the writer side
		if e.shard == 0 {
			for _, l := range []int{65536, 65537, 70000, 131071, 131072, 200000} {
				wc := &vfChunkConn{}
				p := make([]byte, l)
				var n int
				var err error
				if pn := vfRecover(func() { n, err = writeStreamingPacket(wc, p) }); pn != "" {
					r.violation("write-panic", pn, map[string]any{"len": l})

					continue
				}
				r.eval(1)
				r.distinct(fmt.Sprintf("oversize/%d", l))
				w := wc.written.Bytes()
				if err == nil || len(w) > 0 {
					hdr := -1
					if len(w) >= 2 {
						hdr = int(binary.BigEndian.Uint16(w))
					}
					r.violation("write-oversize", fmt.Sprintf("packet of %d bytes: n=%d err=%v, %d bytes put on the wire with length header %d", l, n, err, len(w), hdr), map[string]any{"len": l})
				}
				// the same through tcpPacketConn.WriteTo
				tp := newTCPPacketConn(tcpPacketParams{ReadBuffer: 4, LocalAddr: &net.TCPAddr{IP: net.IPv4(10, 0, 0, 1), Port: 7000}, Logger: vfQuietLogger().NewLogger("ice")})
				cc := &vfChunkConn{blockEOF: true, eofCh: make(chan struct{})}
				if err := tp.AddConn(cc, nil); err == nil {
					_, werr := tp.WriteTo(p, cc.RemoteAddr())
					cc.mu.Lock()
					w2 := append([]byte{}, cc.written.Bytes()...)
					cc.mu.Unlock()
					if werr == nil || len(w2) > 0 {
						r.violation("write-oversize:tcpPacketConn", fmt.Sprintf("tcpPacketConn.WriteTo of %d bytes: err=%v, %d bytes on the wire", l, werr, len(w2)), map[string]any{"len": l})
					}
				}
				_ = tp.Close()
			}
		}

		// (C) short buffers, truncated streams and hostile streams vs the reference deframer
		nC := e.n(30000, 1500000)
		for i := 0; i < nC; i++ {
			rng := e.rng(i, "hostile")
			var stream []byte
			mode := rng.IntN(4)
			switch mode {
			case 0: // valid frames, truncated at a random point
				pk := vfC14Packets(rng, 9000)
				stream, _ = vfC14Frame(pk)
				if len(stream) > 0 {
					stream = stream[:rng.IntN(len(stream))]
				}
			case 1: // random garbage
				stream = make([]byte, rng.IntN(3000))
				for j := range stream {
					stream[j] = byte(rng.IntN(256))
				}
			case 2: // huge declared lengths, little data
				for k := 0; k < 1+rng.IntN(4); k++ {
					var h [2]byte
					binary.BigEndian.PutUint16(h[:], uint16(20000+rng.IntN(45536))) //nolint:gosec
					stream = append(stream, h[:]...)
					stream = append(stream, make([]byte, rng.IntN(50))...)
				}
			default: // valid frames, reader buffer smaller than some of them
				pk := vfC14Packets(rng, 4000)
				stream, _ = vfC14Frame(pk)
			}
			bufCap := []int{0, 1, 2, 100, 512, 1500, 8192, 65535}[rng.IntN(8)]
			chunks, kind := vfC14Partition(rng, len(stream))
			rc := &vfChunkConn{stream: stream, chunks: chunks}
			// reference deframer
			pos := 0
			for step := 0; step < 64; step++ {
				buf := make([]byte, bufCap)
				var n int
				var err error
				if pn := vfRecover(func() { n, err = readStreamingPacket(rc, buf) }); pn != "" {
					r.violation("read-panic:hostile", pn, map[string]any{"idx": i, "mode": mode, "bufcap": bufCap})

					break
				}
				// expected
				if len(stream)-pos < 2 {
					if err == nil {
						r.violation("hostile-fabricated", fmt.Sprintf("stream ended inside a header but a packet of %d bytes was returned", n), map[string]any{"idx": i, "mode": mode})
					}

					break
				}
				l := int(binary.BigEndian.Uint16(stream[pos:]))
				if l > bufCap {
					if !errors.Is(err, io.ErrShortBuffer) {
						r.violation("hostile-short-buffer", fmt.Sprintf("frame of %d bytes with a %d-byte buffer: n=%d err=%v (want io.ErrShortBuffer)", l, bufCap, n, err), map[string]any{"idx": i, "mode": mode, "bufcap": bufCap})
					}
					r.count("short_buffer_cases", 1)

					break // the stream is out of sync after a refused frame: stop, as the users of the framing do
				}
				if len(stream)-pos-2 < l {
					if err == nil {
						r.violation("hostile-truncated-accepted", fmt.Sprintf("frame declares %d bytes, only %d present, but a packet of %d bytes was returned", l, len(stream)-pos-2, n), map[string]any{"idx": i, "mode": mode})
					}
					r.count("truncated_cases", 1)

					break
				}
				if err != nil || n != l || !bytes.Equal(buf[:n], stream[pos+2:pos+2+l]) {
					r.violation("hostile-sequence:"+kind, fmt.Sprintf("frame at offset %d (len %d): got n=%d err=%v", pos, l, n, err), map[string]any{"idx": i, "mode": mode, "bufcap": bufCap})

					break
				}
				pos += 2 + l
			}
			rc.mu.Lock()
			maxReq := rc.maxReq
			rc.mu.Unlock()
			if maxReq > max(bufCap, 2) {
				r.violation("hostile-unbounded-read", fmt.Sprintf("a single read requested %d bytes with a %d-byte buffer", maxReq, bufCap), map[string]any{"idx": i})
			}
			r.eval(1)
			r.distinct(fmt.Sprintf("hostile/%d/%s/cap%d/len%d", mode, kind, bufCap, len(stream)/500))
		}

		// (D) through tcpPacketConn (the passive side) with the re-chunking conn
		nD := e.n(3000, 100000)
		for i := 0; i < nD; i++ {
			rng := e.rng(i, "tcppacketconn")
			pkts := vfC14Packets(rng, 8192)
			stream, segEnds := vfC14Frame(pkts)
			chunks, kind := vfC14Partition(rng, len(stream))
			cc := &vfChunkConn{stream: stream, chunks: chunks, segEnds: segEnds, remote: &net.TCPAddr{IP: net.IPv4(10, 9, byte(rng.IntN(250)), 3), Port: 1000 + rng.IntN(60000)}}
			cc.stalls = vfC14Stalls(rng, 0, len(stream))
			tp := newTCPPacketConn(tcpPacketParams{ReadBuffer: rng.IntN(8), LocalAddr: &net.TCPAddr{IP: net.IPv4(10, 0, 0, 1), Port: 7000}, Logger: vfQuietLogger().NewLogger("ice")})
			if err := tp.AddConn(cc, nil); err != nil {
				r.violation("harness:addconn", err.Error(), nil)

				continue
			}
			lens := []int{}
			ok := true
			for k, p := range pkts {
				lens = append(lens, len(p))
				buf := make([]byte, 8192)
				n, addr, err := tp.ReadFrom(buf)
				if err != nil || n != len(p) || !bytes.Equal(buf[:n], p) || addr == nil || addr.String() != cc.RemoteAddr().String() {
					r.violation("tcpconn-sequence:"+kind, fmt.Sprintf("tcpPacketConn.ReadFrom packet %d (len %d): n=%d addr=%v err=%v", k, len(p), n, addr, err), map[string]any{"idx": i, "lens": lens, "partition": kind})
					ok = false

					break
				}
			}
			if ok {
				// after the stream ends the connection reports an error (EOF of its only conn), never another packet
				buf := make([]byte, 8192)
				n, _, err := tp.ReadFrom(buf)
				if err == nil {
					r.violation("tcpconn-fabricated", fmt.Sprintf("tcpPacketConn.ReadFrom returned %d bytes after the stream ended", n), map[string]any{"idx": i})
				}
			}
			if cc.overRead != "" {
				r.violation("read-overread:tcpPacketConn", cc.overRead, map[string]any{"idx": i})
			}
			_ = tp.Close()
			r.eval(1)
			r.distinct(fmt.Sprintf("tcpconn/%s/n%d/max%d", kind, len(pkts)/4, vfC14MaxBucket(lens)))
		}

		// (D2) hostile streams through tcpPacketConn: what the reference deframer accepts (receive MTU 8192) is delivered in
		// order, and at the first oversized / truncated frame the stream ends with an error - never another packet
		nD2 := e.n(3000, 100000)
		for i := 0; i < nD2; i++ {
			rng := e.rng(i, "tcppacketconn-hostile")
			pk := vfC14Packets(rng, 3000)
			stream, _ := vfC14Frame(pk)
			mode := rng.IntN(4)
			switch mode {
			case 0: // an oversized frame whose body is itself a sequence of well-formed small frames
				inner, _ := vfC14Frame([][]byte{[]byte("forged-1"), []byte("forged-2"), bytes.Repeat([]byte{0xEE}, 300)})
				body := append([]byte{}, inner...)
				for len(body) < 8193+rng.IntN(2000) {
					body = append(body, inner...)
				}
				var h [2]byte
				binary.BigEndian.PutUint16(h[:], uint16(len(body))) //nolint:gosec
				stream = append(append(stream, h[:]...), body...)
			case 1: // huge declared length, then frames
				var h [2]byte
				binary.BigEndian.PutUint16(h[:], uint16(8193+rng.IntN(57000))) //nolint:gosec
				tail, _ := vfC14Frame(vfC14Packets(rng, 200))
				stream = append(append(stream, h[:]...), tail...)
			case 2: // random garbage after the valid frames
				g := make([]byte, rng.IntN(4000))
				for j := range g {
					g[j] = byte(rng.IntN(256))
				}
				stream = append(stream, g...)
			default: // truncated
				if len(stream) > 0 {
					stream = stream[:rng.IntN(len(stream))]
				}
			}
			// reference deframer with the receive MTU as the buffer size
			var want [][]byte
			for pos := 0; len(stream)-pos >= 2; {
				l := int(binary.BigEndian.Uint16(stream[pos:]))
				if l > 8192 || len(stream)-pos-2 < l {
					break
				}
				want = append(want, stream[pos+2:pos+2+l])
				pos += 2 + l
			}
			chunks, kind := vfC14Partition(rng, len(stream))
			cc := &vfChunkConn{stream: stream, chunks: chunks, remote: &net.TCPAddr{IP: net.IPv4(10, 9, byte(rng.IntN(250)), 4), Port: 1000 + rng.IntN(60000)}}
			tp := newTCPPacketConn(tcpPacketParams{ReadBuffer: rng.IntN(8), LocalAddr: &net.TCPAddr{IP: net.IPv4(10, 0, 0, 1), Port: 7000}, Logger: vfQuietLogger().NewLogger("ice")})
			if err := tp.AddConn(cc, nil); err != nil {
				r.violation("harness:addconn", err.Error(), nil)

				continue
			}
			wit := map[string]any{"idx": i, "mode": mode, "partition": kind, "valid_frames_before_the_bad_one": len(want)}
			for k := 0; k <= len(want)+2; k++ {
				buf := make([]byte, 8192)
				type res struct {
					n   int
					err error
				}
				ch := make(chan res, 1)
				go func() { n, _, err := tp.ReadFrom(buf); ch <- res{n, err} }()
				var got res
				select {
				case got = <-ch:
				case <-time.After(10 * time.Second):
					got = res{0, errors.New("harness: ReadFrom did not return")}
					_ = tp.Close()
					<-ch
				}
				if k < len(want) {
					if got.err != nil || !bytes.Equal(buf[:got.n], want[k]) {
						r.violation("tcpconn-hostile-sequence", fmt.Sprintf("frame %d of %d valid ones (len %d): n=%d err=%v", k, len(want), len(want[k]), got.n, got.err), wit)

						break
					}

					continue
				}
				if got.err == nil {
					r.violation("tcpconn-hostile-fabricated", fmt.Sprintf("after the %d valid frames the stream carries an oversized / truncated frame, but ReadFrom returned another packet of %d bytes (%q...)", len(want), got.n, string(buf[:min(got.n, 12)])), wit)
				}

				break
			}
			_ = tp.Close()
			r.eval(1)
			r.distinct(fmt.Sprintf("tcpconn-hostile/%d/%s/valid%d", mode, kind, len(want)/4))
		}

		// (G) the write side of tcpPacketConn, with and without the write buffer of the TCP mux (WriteBufferSize): every
		// packet up to the receive MTU that WriteTo accepted appears on the wire as one RFC 4571 frame, in order
		nG := e.n(1500, 60000)
		for i := 0; i < nG; i++ {
			rng := e.rng(i, "tcppacketconn-write")
			wb := []int{0, 1 << 20, 1 << 22}[rng.IntN(3)]
			cc := &vfChunkConn{remote: &net.TCPAddr{IP: net.IPv4(10, 9, 1, 5), Port: 1000 + rng.IntN(60000)}, blockEOF: true, eofCh: make(chan struct{})}
			// one history in four: a small write buffer and a peer that takes nothing for a while, so that the buffer
			// fills up and WriteTo has to refuse packets; what it accepted still reaches the wire in order
			var gate chan struct{}
			if rng.IntN(4) == 0 {
				wb = 9000 + rng.IntN(30000)
				gate = make(chan struct{})
				cc.writeGate, cc.gateEntered = gate, make(chan struct{})
			}
			tp := newTCPPacketConn(tcpPacketParams{ReadBuffer: 1, WriteBuffer: wb, LocalAddr: &net.TCPAddr{IP: net.IPv4(10, 0, 0, 1), Port: 7000}, Logger: vfQuietLogger().NewLogger("ice")})
			if err := tp.AddConn(cc, nil); err != nil {
				r.violation("harness:addconn", err.Error(), nil)

				continue
			}
			pkts := vfC14Packets(rng, 8192)
			if len(pkts) > 12 {
				pkts = pkts[:12]
			}
			// the boundary lengths are always present
			for _, l := range []int{8192, 8191, 8190, 1}[:1+rng.IntN(4)] {
				pkts = append(pkts, bytes.Repeat([]byte{byte(l)}, l))
			}
			rng.Shuffle(len(pkts), func(a, b int) { pkts[a], pkts[b] = pkts[b], pkts[a] })
			if gate != nil {
				for k := 0; k < 6; k++ { // enough to overflow the small buffer while the peer is stalled
					pkts = append(pkts, bytes.Repeat([]byte{byte(0xA0 + k)}, 4000+rng.IntN(4193)))
				}
			}
			var accepted [][]byte
			lens := []int{}
			refused := 0
			for _, p := range pkts {
				if len(p) == 0 {
					continue // an empty write is not representable in the packet buffer
				}
				n, err := tp.WriteTo(p, cc.RemoteAddr())
				if err == nil && n == len(p) {
					accepted = append(accepted, p)
					lens = append(lens, len(p))
					if gate != nil && len(accepted) == 1 {
						// the buffered writer takes the first packet and gets stuck on the stalled peer; everything
						// else queues up behind it
						select {
						case <-cc.gateEntered:
						case <-time.After(5 * time.Second):
						}
					}
				} else {
					refused++
				}
			}
			if gate != nil {
				close(gate) // the peer takes data again
				if refused > 0 {
					r.count("c14_write_histories_with_full_buffer", 1)
				}
			}
			// a final sentinel packet: the buffered writer is one goroutine working in order, so once the sentinel's frame
			// is on the wire everything accepted before it has been dealt with
			sentinel := []byte(fmt.Sprintf("END-%d", i))
			sn, serr := tp.WriteTo(sentinel, cc.RemoteAddr())
			for dl := time.Now().Add(10 * time.Second); gate != nil && serr != nil && time.Now().Before(dl); {
				time.Sleep(50 * time.Microsecond) // the small buffer is still draining
				sn, serr = tp.WriteTo(sentinel, cc.RemoteAddr())
			}
			if serr != nil || sn != len(sentinel) {
				r.inconclusive(1)
				_ = tp.Close()
				_ = cc.Close()

				continue
			}
			accepted = append(accepted, sentinel)
			sentFrame, _ := vfC14Frame([][]byte{sentinel})
			want, _ := vfC14Frame(accepted)
			var wire []byte
			for dl := time.Now().Add(10 * time.Second); time.Now().Before(dl); time.Sleep(20 * time.Microsecond) {
				cc.mu.Lock()
				wire = append([]byte{}, cc.written.Bytes()...)
				cc.mu.Unlock()
				if bytes.HasSuffix(wire, sentFrame) || len(wire) >= len(want) {
					break
				}
			}
			r.eval(1)
			if !bytes.HasSuffix(wire, sentFrame) && len(wire) < len(want) {
				r.inconclusive(1) // the writer never reached the sentinel: no verdict on order or loss
				_ = tp.Close()
				_ = cc.Close()

				continue
			}
			if !bytes.Equal(wire, want) {
				// which accepted packet is missing or altered
				detail := fmt.Sprintf("%d bytes on the wire, %d expected", len(wire), len(want))
				pos := 0
				for k, p := range accepted {
					fr, _ := vfC14Frame([][]byte{p})
					if pos+len(fr) > len(wire) || !bytes.Equal(wire[pos:pos+len(fr)], fr) {
						detail = fmt.Sprintf("accepted packet %d (len %d) is not on the wire at its place (%d bytes on the wire, %d expected)", k, len(p), len(wire), len(want))

						break
					}
					pos += len(fr)
				}
				r.violation("tcpconn-write-lost-or-altered", fmt.Sprintf("write buffer %d: %s", wb, detail), map[string]any{"idx": i, "write_buffer": wb, "accepted_lens": lens})
			}
			_ = tp.Close()
			_ = cc.Close()
			r.distinct(fmt.Sprintf("tcpconn-write/wb%d/n%d/max%d", wb, len(accepted)/4, vfC14MaxBucket(lens)))
		}

		// (H) a new inbound connection of the TCP mux: handleConn reads the first frame (the STUN check that names the ufrag)
		// itself and hands the rest of the stream to the packet conn's reader.  Whatever the segmentation - in particular
		// the first frame coalesced with the following ones - the packet conn delivers the first message and then every
		// following packet, in order, and nothing after the stream ended.
		nH := e.n(1500, 60000)
		for i := 0; i < nH; i++ {
			vfC14MuxFirstFrame(e, r, i)
		}

		// (F) concurrent senders on one TCP connection: frames must not interleave on the wire
		nF := e.n(400, 20000)
		for i := 0; i < nF; i++ {
			vfC14Concurrent(e, r, i)
		}

		// (E) activeTCPConn and tcpPacketConn.WriteTo over real loopback TCP (kernel decides the segmentation)
		nE := e.n(40, 1200)
		for i := 0; i < nE; i++ {
			vfC14Loopback(e, r, i)
		}
	})
}

func vfC14MaxBucket(lens []int) int {
	m := 0
	for _, l := range lens {
		if l > m {
			m = l
		}
	}
	switch {
	case m == 0:
		return 0
	case m <= 1500:
		return 1
	case m <= 8192:
		return 2
	case m < 65535:
		return 3
	default:
		return 4
	}
}

func vfC14Loopback(e *vfEnv, r *vfResult, idx int) {
	rng := e.rng(idx, "loopback")
	ln, err := net.Listen("tcp", "127.0.0.1:0")
	if err != nil {
		r.inconclusive(1)
		r.note("loopback listen failed: %v", err)

		return
	}
	defer ln.Close() //nolint:errcheck
	toClient := vfC14Packets(rng, 8192)
	toServer := vfC14Packets(rng, 8192)
	// packetio buffers drop nothing below their limit; empty writes are not representable in a packet buffer
	for _, l := range [][][]byte{toClient, toServer} {
		for k := range l {
			if len(l[k]) == 0 {
				l[k] = []byte{0xEE}
			}
		}
	}
	// one session in forty has a long pause in the middle of a frame towards the active side (a stalled sender or a
	// retransmission): more than a second, so that it straddles any short polling deadline a reader might use
	stallAt, stallFor := -1, time.Duration(0)
	if idx%40 == 7 {
		j := rng.IntN(len(toClient))
		off := 0
		for k := 0; k < j; k++ {
			off += 2 + len(toClient[k])
		}
		stallAt = off + 1 + rng.IntN(1+len(toClient[j])) // inside the header or the body of frame j
		stallFor = 1250 * time.Millisecond
		if e.tier == "thorough" {
			stallFor += time.Duration(rng.IntN(2250)) * time.Millisecond
		}
		r.count("loopback_sessions_with_mid_frame_stall", 1)
	}
	type srvRes struct {
		got [][]byte
		err error
	}
	resCh := make(chan srvRes, 1)
	var srvConn atomic.Value
	writerDone := make(chan struct{})
	release := make(chan struct{})
	defer close(release)
	go func() {
		c, err := ln.Accept()
		if err != nil {
			resCh <- srvRes{err: err}

			return
		}
		defer c.Close() //nolint:errcheck
		srvConn.Store(c)
		_ = c.SetDeadline(time.Now().Add(20 * time.Second))
		// writer: frames cut into random segments with yields in between
		done := make(chan struct{})
		go func() {
			defer close(done)
			stream, _ := vfC14Frame(toClient)
			srng := rand.New(rand.NewPCG(uint64(idx), 99)) //nolint:gosec
			sent := 0
			for len(stream) > 0 {
				n := 1 + srng.IntN(min(len(stream), 3000))
				if stallAt > sent && sent+n > stallAt {
					n = stallAt - sent
				}
				if _, err := c.Write(stream[:n]); err != nil {
					return
				}
				stream = stream[n:]
				sent += n
				if sent == stallAt {
					time.Sleep(stallFor) // the sender (or the network) stalls in the middle of a frame
				}
				if srng.IntN(3) == 0 {
					time.Sleep(time.Duration(srng.IntN(200)) * time.Microsecond)
				}
			}
			close(writerDone) // the whole stream was accepted by the kernel
		}()
		var got [][]byte
		for range toServer {
			buf := make([]byte, 8192)
			n, err := readStreamingPacket(c, buf) // harness-side use of the real deframer on a kernel socket
			if err != nil {
				resCh <- srvRes{got: got, err: err}

				return
			}
			got = append(got, append([]byte{}, buf[:n]...))
		}
		<-done
		resCh <- srvRes{got: got}
		<-release // keep the connection open until the verdict: the active side must not see EOF before that
	}()
	ctx, cancel := context.WithTimeout(context.Background(), 20*time.Second)
	defer cancel()
	ap := netip.MustParseAddrPort(ln.Addr().String())
	ac := newActiveTCPConn(ctx, "127.0.0.1:0", ap, vfQuietLogger().NewLogger("ice"))
	defer ac.Close() //nolint:errcheck
	for _, p := range toServer {
		if _, err := ac.WriteTo(p, nil); err != nil {
			r.inconclusive(1)
			r.note("activeTCPConn.WriteTo failed: %v", err)

			return
		}
	}
	// the read loop of the active side, as the goroutine dump names it; seen once while it must exist, so that "it is
	// gone" below is a statement about the session and not about how the code happens to be laid out
	readers := func() (all, parked int) {
		for _, g := range strings.Split(vfStacks(), "\n\n") {
			if strings.Contains(g, "created by github.com/pion/ice/v4.newActiveTCPConn.func1 in goroutine") {
				all++
				if strings.Contains(g, ".readStreamingPacket(") && strings.Contains(g, "[IO wait") {
					parked++
				}
			}
		}

		return all, parked
	}
	readerSeen := false
	if stallAt >= 0 {
		for i := 0; i < 200 && !readerSeen; i++ {
			if c, _ := ac.conn.Load().(net.Conn); c != nil {
				all, _ := readers()
				readerSeen = all == 1
			}
			if !readerSeen {
				time.Sleep(5 * time.Millisecond)
			}
		}
	}
	for k, p := range toClient {
		buf := make([]byte, 8192)
		type rd struct {
			n   int
			err error
		}
		ch := make(chan rd, 1)
		go func() { n, _, err := ac.ReadFrom(buf); ch <- rd{n, err} }()
		select {
		case x := <-ch:
			if x.err != nil || x.n != len(p) || !bytes.Equal(buf[:x.n], p) {
				r.violation("active-sequence", fmt.Sprintf("activeTCPConn.ReadFrom packet %d (len %d): n=%d err=%v", k, len(p), x.n, x.err), map[string]any{"idx": idx})

				return
			}
		case <-time.After(3 * time.Second):
			// Nothing for 3 s.  Decide on the state of the stream, not on the clock: if the peer has written everything,
			// every byte has left its send queue, the active side's socket holds no unread byte and the read loop is
			// parked waiting for more, then the bytes of this packet were consumed and not delivered.
			why := ""
			lost := func() bool {
				select {
				case <-writerDone:
				default:
					why = "peer still writing"

					return false
				}
				if !readerSeen || len(ch) != 0 {
					why = fmt.Sprintf("reader identified=%v delivered=%d", readerSeen, len(ch))

					return false
				}
				all, parked := readers()
				if all == 0 {
					why = "read loop ended"

					return true // (b) the read loop gave up although the peer neither closed nor sent anything malformed
				}
				sc, _ := srvConn.Load().(net.Conn)
				cc, _ := ac.conn.Load().(net.Conn)
				outq, ok1 := vfSockQueue(sc, syscall.TIOCOUTQ)
				inq, ok2 := vfSockQueue(cc, syscall.TIOCINQ)
				why = fmt.Sprintf("outq=%d(%v) inq=%d(%v) readers=%d parked=%d", outq, ok1, inq, ok2, all, parked)

				// (a) everything was consumed and the read loop waits for more
				return ok1 && ok2 && outq == 0 && inq == 0 && all == 1 && parked == 1
			}
			verdict := lost()
			for i := 0; i < 40 && verdict; i++ { // the same state, seen again and again over two more seconds
				time.Sleep(50 * time.Millisecond)
				verdict = lost()
			}
			if verdict {
				r.violation("active-bytes-consumed-not-delivered", fmt.Sprintf("activeTCPConn: packet %d (len %d) never came out of ReadFrom although the peer has sent a well-formed stream completely and keeps the connection open (%s; mid-frame stall of %v in this session)", k, len(p), why, stallFor), map[string]any{"idx": idx, "stall_ms": stallFor.Milliseconds(), "state": why})

				return
			}
			select {
			case x := <-ch:
				if x.err != nil || x.n != len(p) || !bytes.Equal(buf[:x.n], p) {
					r.violation("active-sequence", fmt.Sprintf("activeTCPConn.ReadFrom packet %d (len %d): n=%d err=%v", k, len(p), x.n, x.err), map[string]any{"idx": idx})

					return
				}
			case <-time.After(17 * time.Second):
				r.inconclusive(1)
				r.note("activeTCPConn.ReadFrom: no packet within 20 s (loopback): %s", why)

				return
			}
		}
	}
	select {
	case s := <-resCh:
		if s.err != nil || len(s.got) != len(toServer) {
			r.violation("active-write-sequence", fmt.Sprintf("server deframed %d of %d packets written through activeTCPConn: %v", len(s.got), len(toServer), s.err), map[string]any{"idx": idx})

			return
		}
		for k := range toServer {
			if !bytes.Equal(s.got[k], toServer[k]) {
				r.violation("active-write-sequence", fmt.Sprintf("packet %d written through activeTCPConn arrived altered (len %d vs %d)", k, len(s.got[k]), len(toServer[k])), map[string]any{"idx": idx})

				return
			}
		}
	case <-time.After(25 * time.Second):
		r.inconclusive(1)

		return
	}
	if sc, _ := srvConn.Load().(net.Conn); sc != nil && idx%10 == 3 {
		// a packet that does not fit the 16-bit frame / the receive MTU written to the active side: an error or the
		// closure of the stream, never a frame the application did not send (a truncated copy, say)
		big := make([]byte, 8193+rng.IntN(65535-8193+1))
		for j := range big {
			big[j] = byte(j*13 + 5) //nolint:gosec
		}
		_, werr := ac.WriteTo(big, nil)
		wait := 5 * time.Second
		if werr != nil {
			wait = 300 * time.Millisecond
		}
		_ = sc.SetReadDeadline(time.Now().Add(wait))
		buf := make([]byte, 70000)
		n, rerr := readStreamingPacket(sc, buf)
		var ne net.Error
		switch {
		case rerr == nil:
			r.violation("active-oversize-fabricated", fmt.Sprintf("a %d-byte packet was written to activeTCPConn (WriteTo error: %v); the peer then received a %d-byte frame nobody sent (a prefix of the oversized packet: %v)", len(big), werr, n, n <= len(big) && bytes.Equal(buf[:n], big[:n])), map[string]any{"idx": idx, "len": len(big), "received": n})

			return
		case errors.As(rerr, &ne) && ne.Timeout():
			if werr == nil {
				r.count("loopback_oversize_neither_error_nor_closure_within_5s_not_judged", 1)
			} else {
				r.count("loopback_oversize_write_refused", 1)
			}
		default:
			r.count("loopback_oversize_stream_closed", 1)
		}
	}
	r.eval(1)
	r.count("loopback_sessions", 1)
	r.distinct(fmt.Sprintf("loopback/%d/%d", len(toClient)/4, len(toServer)/4))
}

// vfYieldConn yields the processor after every Write so that a second writer can run
// between two Write calls of the first one (what a real socket under load allows).
type vfYieldConn struct {
	vfChunkConn
	writes int
}

func (c *vfYieldConn) Write(p []byte) (int, error) {
	n, err := c.vfChunkConn.Write(p)
	c.mu.Lock()
	c.writes++
	c.mu.Unlock()
	runtime.Gosched()
	time.Sleep(time.Microsecond)

	return n, err
}

func vfC14Concurrent(e *vfEnv, r *vfResult, idx int) {
	rng := e.rng(idx, "concurrent")
	tp := newTCPPacketConn(tcpPacketParams{ReadBuffer: 4, LocalAddr: &net.TCPAddr{IP: net.IPv4(10, 0, 0, 1), Port: 7000}, Logger: vfQuietLogger().NewLogger("ice")})
	cc := &vfYieldConn{vfChunkConn: vfChunkConn{blockEOF: true, eofCh: make(chan struct{})}}
	if err := tp.AddConn(cc, nil); err != nil {
		r.violation("harness:addconn", err.Error(), nil)

		return
	}
	writers := 2 + rng.IntN(4)
	per := 1 + rng.IntN(8)
	want := map[string]int{}
	var wg sync.WaitGroup
	var mu sync.Mutex
	var werrs []string
	for w := 0; w < writers; w++ {
		pk := make([][]byte, per)
		for k := range pk {
			l := 4 + rng.IntN(300)
			b := make([]byte, l)
			for j := range b {
				b[j] = byte(w*16 + k)
			}
			binary.BigEndian.PutUint32(b, uint32(w)<<16|uint32(k)) //nolint:gosec
			pk[k] = b
			want[string(b)]++
		}
		wg.Add(1)
		go func() {
			defer wg.Done()
			for _, b := range pk {
				if _, err := tp.WriteTo(b, cc.RemoteAddr()); err != nil {
					mu.Lock()
					werrs = append(werrs, err.Error())
					mu.Unlock()
				}
			}
		}()
	}
	wg.Wait()
	cc.mu.Lock()
	stream := append([]byte{}, cc.written.Bytes()...)
	cc.mu.Unlock()
	_ = tp.Close()
	r.eval(1)
	r.distinct(fmt.Sprintf("concurrent/w%d/p%d", writers, per))
	if len(werrs) > 0 {
		r.violation("concurrent-write-error", fmt.Sprintf("WriteTo failed under concurrency: %v", werrs), map[string]any{"idx": idx})

		return
	}
	// deframe with the reference and compare multisets
	got := map[string]int{}
	pos, n := 0, 0
	for pos+2 <= len(stream) {
		l := int(binary.BigEndian.Uint16(stream[pos:]))
		if pos+2+l > len(stream) {
			break
		}
		got[string(stream[pos+2:pos+2+l])]++
		pos += 2 + l
		n++
	}
	bad := pos != len(stream) || n != writers*per
	for k, v := range want {
		if got[k] != v {
			bad = true
		}
	}
	if bad {
		r.violation("concurrent-frames-interleaved", fmt.Sprintf("%d writers x %d packets on one TCP connection: the wire deframes into %d packets with %d trailing bytes; sent multiset not reproduced", writers, per, n, len(stream)-pos),
			map[string]any{"idx": idx, "writers": writers, "per_writer": per})
	}
}

// vfIdleListener never accepts anything: the connections of part (H) are handed to handleConn directly.
type vfIdleListener struct {
	ch   chan struct{}
	once sync.Once
}

func (l *vfIdleListener) Accept() (net.Conn, error) {
	<-l.ch

	return nil, net.ErrClosed
}
func (l *vfIdleListener) Close() error   { l.once.Do(func() { close(l.ch) }); return nil }
func (l *vfIdleListener) Addr() net.Addr { return &net.TCPAddr{IP: net.IPv4(10, 0, 0, 1), Port: 7000} }

func vfC14MuxFirstFrame(e *vfEnv, r *vfResult, idx int) { //nolint:cyclop
	rng := e.rng(idx, "muxfirstframe")
	ufrag := fmt.Sprintf("hfrag%04d%c", idx%10000, 'a'+rune(rng.IntN(26)))
	// first message: a Binding request naming the ufrag, 28..~400 bytes
	setters := []stun.Setter{stun.BindingRequest, stun.TransactionID, stun.NewUsername(ufrag + ":peer")}
	if rng.IntN(2) == 0 {
		setters = append(setters, PriorityAttr(rng.Uint32()))
	}
	if rng.IntN(3) == 0 {
		setters = append(setters, stun.NewSoftware(strings.Repeat("s", 1+rng.IntN(300))))
	}
	if rng.IntN(2) == 0 {
		setters = append(setters, stun.NewShortTermIntegrity("pwdpwdpwdpwdpwdpwdpwdpwd"), stun.Fingerprint)
	}
	msg, err := stun.Build(setters...)
	if err != nil {
		r.violation("harness:stun-build", err.Error(), nil)

		return
	}
	hostile := ""
	first := append([]byte{}, msg.Raw...)
	switch rng.IntN(12) {
	case 0:
		hostile = "garbage"
		first = make([]byte, 1+rng.IntN(200))
		for j := range first {
			first[j] = byte(rng.IntN(256))
		}
	case 1:
		hostile = "no-username"
		m2, _ := stun.Build(stun.BindingRequest, stun.TransactionID, PriorityAttr(7))
		first = append([]byte{}, m2.Raw...)
	case 2:
		hostile = "longer-than-512"
		m2, _ := stun.Build(stun.BindingRequest, stun.TransactionID, stun.NewUsername(ufrag+":peer"), stun.NewSoftware(strings.Repeat("s", 600)))
		first = append([]byte{}, m2.Raw...)
	}
	pkts := vfC14Packets(rng, 8192)
	stream, segEnds := vfC14Frame(append([][]byte{first}, pkts...))
	chunks, kind := vfC14Partition(rng, len(stream))
	if rng.IntN(3) == 0 {
		// the segmentation that matters most here: the first frame arrives together with what follows it
		k := 2 + len(first) + rng.IntN(len(stream)-2-len(first)+1)
		chunks, kind = []int{k}, "first-frame-coalesced"
	}
	cc := &vfChunkConn{stream: stream, chunks: chunks, segEnds: segEnds, remote: &net.TCPAddr{IP: net.IPv4(10, 9, byte(rng.IntN(250)), 3), Port: 1000 + rng.IntN(60000)}}
	cc.stalls = vfC14Stalls(rng, 2+len(first), len(stream)) // late arrivals behind the first frame (which has its own, legitimate, deadline)
	ln := &vfIdleListener{ch: make(chan struct{})}
	mux := NewTCPMuxDefault(TCPMuxParams{Listener: ln, Logger: vfQuietLogger().NewLogger("ice"), ReadBufferSize: rng.IntN(8)})
	defer func() {
		_ = ln.Close()
		_ = mux.Close()
	}()
	wit := map[string]any{"idx": idx, "partition": kind, "first_len": len(first), "hostile_first": hostile, "packets": len(pkts)}
	if pn := vfRecover(func() { mux.handleConn(cc) }); pn != "" {
		r.violation("mux-first-frame-panic", pn, wit)

		return
	}
	r.eval(1)
	r.distinct(fmt.Sprintf("muxfirst/%s/h=%s/n%d/first%d", kind, hostile, len(pkts)/4, len(first)/100))
	if hostile != "" {
		// nothing usable came first: the connection is dropped and no packet conn appears for it
		mux.mu.Lock()
		nConns := len(mux.connsIPv4) + len(mux.connsIPv6)
		mux.mu.Unlock()
		cc.mu.Lock()
		closed := cc.closed
		cc.mu.Unlock()
		if nConns != 0 || !closed {
			r.violation("mux-first-frame-hostile-accepted", fmt.Sprintf("first frame %q: connection closed=%v, packet conns in the mux=%d", hostile, closed, nConns), wit)
		}
		r.count("c14_mux_hostile_first_frames", 1)

		return
	}
	if rng.IntN(2) == 0 {
		// a second connection (another ufrag, another peer) is accepted and handled before anybody has read the first
		// message of the first one: what the first connection queued must not change
		m2, err := stun.Build(stun.BindingRequest, stun.TransactionID, stun.NewUsername(fmt.Sprintf("other%04d:peer", idx%10000)), stun.NewSoftware(strings.Repeat("o", 1+rng.IntN(300))))
		if err == nil {
			stream2, _ := vfC14Frame([][]byte{m2.Raw, []byte("second connection")})
			cc2 := &vfChunkConn{stream: stream2, remote: &net.TCPAddr{IP: net.IPv4(10, 8, byte(rng.IntN(250)), 4), Port: 1000 + rng.IntN(60000)}}
			if pn := vfRecover(func() { mux.handleConn(cc2) }); pn != "" {
				r.violation("mux-first-frame-panic", pn, wit)

				return
			}
			wit["second_connection_before_first_read"] = true
			r.count("c14_mux_second_connection_before_first_read", 1)
		}
	}
	pc, err := mux.GetConnByUfrag(ufrag, false, net.IPv4(10, 0, 0, 1))
	if err != nil {
		r.violation("mux-first-frame-conn", err.Error(), wit)

		return
	}
	want := append([][]byte{first}, pkts...)
	for k, p := range want {
		buf := make([]byte, 8192)
		n, addr, err := pc.ReadFrom(buf)
		if err != nil || n != len(p) || !bytes.Equal(buf[:n], p) || addr == nil || addr.String() != cc.RemoteAddr().String() {
			wit["packet"] = k
			r.violation("mux-first-frame-sequence:"+kind, fmt.Sprintf("history %d (%s): packet %d of %d behind the first frame (want len %d): n=%d addr=%v err=%v", idx, kind, k, len(want), len(p), n, addr, err), wit)

			return
		}
	}
	buf := make([]byte, 8192)
	if n, _, err := pc.ReadFrom(buf); err == nil {
		r.violation("mux-first-frame-fabricated", fmt.Sprintf("ReadFrom returned %d bytes after the stream ended", n), wit)
	}
	if cc.overRead != "" {
		r.violation("read-overread:handleConn", cc.overRead, wit)
	}
	r.count("c14_mux_first_frame_histories", 1)
	if kind == "first-frame-coalesced" {
		r.count("c14_mux_first_frame_coalesced", 1)
	}
}

// vfSockQueue asks the kernel for the number of unsent (TIOCOUTQ) or unread (TIOCINQ) bytes of a TCP socket.
func vfSockQueue(c net.Conn, req uintptr) (int, bool) {
	sc, ok := c.(syscall.Conn)
	if !ok {
		return 0, false
	}
	rc, err := sc.SyscallConn()
	if err != nil {
		return 0, false
	}
	var v int32
	var errno syscall.Errno
	if err := rc.Control(func(fd uintptr) {
		_, _, errno = syscall.Syscall(syscall.SYS_IOCTL, fd, req, uintptr(unsafe.Pointer(&v))) //nolint:gosec
	}); err != nil || errno != 0 {
		return 0, false
	}

	return int(v), true
}
