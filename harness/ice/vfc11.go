//go:build verif

package ice

// C11: callbacks are delivered in order, one at a time, exactly once.
// (1) handlerNotifier driven directly with numbered events from a serialised enqueuer, handler
//     latencies from 0 to "blocks until released", re-entrant handlers, Close(graceful/not) at
//     random instants, seeded pauses at hook H2; per-stream history monitor.
// (2) agent level: gather cycles with explicit ufrags over the fake network, STUN replies held
//     to keep a cycle open, Restart at random instants; the OnCandidate log must parse as
//     per-cycle candidates followed by exactly one nil iff the cycle completed.

import (
	"context"
	"fmt"
	"math/rand/v2"
	"net/netip"
	"runtime"
	"sync"
	"sync/atomic"
	"testing"
	"time"

	"github.com/pion/stun/v3"
)

type vfC11Stream struct {
	mu        sync.Mutex
	delivered []int
	inHandler atomic.Int32
	overlaps  atomic.Int32
	lateStart atomic.Int32 // handler entered after graceful Close returned
	closedAt  atomic.Int64 // set (to a sequence number) when graceful Close returned
}

func vfC11Notifier(e *vfEnv, r *vfResult, idx int) { //nolint:cyclop,maintidx
	rng := e.rng(idx, "notifier")
	kind := rng.IntN(3) // 0 connection states, 1 candidates, 2 selected pairs
	var seq atomic.Int64
	st := &vfC11Stream{}
	release := make(chan struct{})
	var releaseOnce sync.Once
	var h *handlerNotifier
	latency := rng.IntN(5)
	reenter := rng.IntN(4) == 0
	closeFromHandler := rng.IntN(6) == 0
	var enqMu sync.Mutex // the agent enqueues from its loop: one enqueuer at a time
	var enqueued []int   // ids whose Enqueue call returned, in order
	var enqueueSeq []int64
	nextID := 0
	enqueue := func() {
		enqMu.Lock()
		defer enqMu.Unlock()
		nextID++
		id := nextID
		switch kind {
		case 0:
			h.EnqueueConnectionState(ConnectionState(1000 + id))
		case 1:
			h.EnqueueCandidate(&vfPrioCand{p: uint32(id)}) //nolint:gosec
		default:
			h.EnqueueSelectedCandidatePair(&CandidatePair{id: uint64(id)}) //nolint:gosec
		}
		enqueued = append(enqueued, id)
		enqueueSeq = append(enqueueSeq, seq.Add(1))
	}
	hrng := rand.New(rand.NewPCG(e.seed+uint64(idx), 12)) //nolint:gosec
	var hmu sync.Mutex
	handler := func(id int) {
		if st.inHandler.Add(1) != 1 {
			st.overlaps.Add(1)
		}
		if st.closedAt.Load() != 0 {
			st.lateStart.Add(1)
		}
		st.mu.Lock()
		st.delivered = append(st.delivered, id)
		st.mu.Unlock()
		hmu.Lock()
		lat := latency
		coin := hrng.IntN(8)
		hmu.Unlock()
		switch lat {
		case 1:
			runtime.Gosched()
		case 2:
			time.Sleep(time.Duration(1+coin*5) * time.Microsecond)
		case 3:
			if coin == 0 {
				time.Sleep(time.Millisecond)
			}
		case 4:
			if coin == 0 {
				select {
				case <-release:
				case <-time.After(30 * time.Millisecond):
				}
			}
		}
		if reenter && coin == 1 && id < 400 {
			enqueue() // a handler that calls back into the agent and causes another event
		}
		if closeFromHandler && coin == 2 {
			h.Close(false) // Close from inside a callback (graceful only from its own goroutine, as documented)
		}
		st.inHandler.Add(-1)
	}
	h = &handlerNotifier{done: make(chan struct{})}
	h.connectionStateFunc = func(s ConnectionState) { handler(int(s) - 1000) }
	h.candidateFunc = func(c Candidate) { handler(int(c.Priority())) }
	h.candidatePairFunc = func(p *CandidatePair) { handler(int(p.id)) } //nolint:gosec
	yp := []int{0, 200, 600}[rng.IntN(3)]
	if yp > 0 {
		vfSetYield(newVfYieldPolicy(rand.New(rand.NewPCG(e.seed+uint64(idx), 13)), map[string]int{"notifier.beforeHandler": yp, "notifier.Close.afterDone": yp, "*": 0}, 80)) //nolint:gosec
		defer vfSetYield(nil)
	}
	nEvents := 1 + rng.IntN(60)
	graceful := rng.IntN(2) == 0
	closeAt := rng.IntN(nEvents + 5)
	var wg sync.WaitGroup
	var closeCall, closeRet atomic.Int64
	wg.Add(1)
	go func() { // the enqueuer (bursts and gaps)
		defer wg.Done()
		grng := rand.New(rand.NewPCG(e.seed+uint64(idx), 14)) //nolint:gosec
		for i := 0; i < nEvents; i++ {
			enqueue()
			if grng.IntN(4) == 0 {
				time.Sleep(time.Duration(grng.IntN(40)) * time.Microsecond)
			}
			if i == closeAt {
				wg.Add(1)
				go func() {
					defer wg.Done()
					closeCall.Store(seq.Add(1))
					h.Close(graceful)
					closeRet.Store(seq.Add(1))
					if graceful {
						st.closedAt.Store(closeRet.Load())
					}
				}()
			}
		}
	}()
	go func() { time.Sleep(3 * time.Millisecond); releaseOnce.Do(func() { close(release) }) }()
	done := make(chan struct{})
	go func() { wg.Wait(); close(done) }()
	select {
	case <-done:
	case <-time.After(30 * time.Second):
		r.violation("notifier-stuck", fmt.Sprintf("notifier history %d did not finish (kind %d, graceful=%v)", idx, kind, graceful), map[string]any{"idx": idx, "stacks": vfStacks()})

		return
	}
	releaseOnce.Do(func() { close(release) })
	// final graceful close: waits for whatever is still being delivered
	fin := make(chan struct{})
	finalCall := seq.Add(1)
	go func() { h.Close(true); close(fin) }()
	select {
	case <-fin:
	case <-time.After(30 * time.Second):
		r.violation("notifier-graceful-close-stuck", fmt.Sprintf("graceful Close of notifier history %d did not return", idx), map[string]any{"idx": idx, "stacks": vfStacks()})

		return
	}
	st.mu.Lock()
	del := append([]int{}, st.delivered...)
	st.mu.Unlock()
	time.Sleep(200 * time.Microsecond)
	st.mu.Lock()
	del2 := len(st.delivered)
	st.mu.Unlock()
	r.eval(1)
	wit := map[string]any{"idx": idx, "kind": []string{"connection-state", "candidate", "selected-pair"}[kind], "events": nEvents, "graceful": graceful, "close_at": closeAt,
		"latency": latency, "reenter": reenter, "close_from_handler": closeFromHandler, "delivered": del}
	if st.overlaps.Load() > 0 {
		r.violation("handler-overlap", fmt.Sprintf("history %d: the handler of one stream ran concurrently with itself %d time(s)", idx, st.overlaps.Load()), wit)
	}
	for i := 1; i < len(del); i++ {
		if del[i] <= del[i-1] {
			sig := "handler-out-of-order"
			if del[i] == del[i-1] {
				sig = "handler-duplicate"
			}
			r.violation(sig, fmt.Sprintf("history %d: delivered sequence %v is not strictly increasing at position %d", idx, del, i), wit)

			break
		}
	}
	if del2 != len(del) || st.inHandler.Load() != 0 {
		r.violation("handler-after-graceful-close", fmt.Sprintf("history %d: after graceful Close returned %d more event(s) were delivered / %d handler(s) still running", idx, del2-len(del), st.inHandler.Load()), wit)
	}
	if st.lateStart.Load() > 0 {
		r.violation("handler-started-after-graceful-close", fmt.Sprintf("history %d: %d handler invocation(s) started after GracefulClose had returned", idx, st.lateStart.Load()), wit)
	}
	// every event accepted before Close was called is delivered; none enqueued after Close returned is
	got := map[int]bool{}
	for _, id := range del {
		got[id] = true
	}
	cc, cr := closeCall.Load(), closeRet.Load()
	if cc == 0 {
		cc = finalCall // no Close during the run: the harness's final graceful Close is the first one
	}
	enqMu.Lock()
	for i, id := range enqueued {
		switch {
		case closeFromHandler:
			// close instant not known to the harness: only ordering/once-ness are judged
		case enqueueSeq[i] < cc:
			if !got[id] {
				r.violation("event-lost", fmt.Sprintf("history %d: event %d was enqueued before Close was called but never delivered (delivered %v)", idx, id, del), wit)
			}
		case cr != 0 && i > 0 && enqueueSeq[i-1] > cr:
			// this Enqueue call started after Close had returned
			if got[id] {
				r.violation("event-after-close", fmt.Sprintf("history %d: event %d was enqueued after Close had returned and was still delivered", idx, id), wit)
			}
		}
	}
	nEnq := len(enqueued)
	enqMu.Unlock()
	r.count("c11_events_enqueued", int64(nEnq))
	r.count("c11_events_delivered", int64(len(del)))
	r.distinct(fmt.Sprintf("notifier/k%d/lat%d/re%v/cfh%v/g%v/y%d/n%d/close%d", kind, latency, reenter, closeFromHandler, graceful, yp, nEvents/10, closeAt*4/(nEvents+5)))
	if idx < 3 {
		r.sample(wit)
	}
}

// vfC11Gather: OnCandidate stream across gather cycles and Restart.
func vfC11Gather(e *vfEnv, r *vfResult, idx int) { //nolint:cyclop
	rng := e.rng(idx, "gathercycles")
	sw := newVfSwitch()
	srv, err := newVfStunServer(sw, "10.255.0.1", 3478)
	if err != nil {
		r.inconclusive(1)

		return
	}
	nIP := 1 + rng.IntN(3)
	ips := []string{}
	for i := 0; i < nIP; i++ {
		ips = append(ips, fmt.Sprintf("10.0.%d.1", i))
	}
	uri, _ := stun.ParseURI("stun:10.255.0.1:3478")
	stunTO := 15 * time.Millisecond
	ufrag := func(c int) string { return fmt.Sprintf("cycleufrag%04d", c) }
	// a third of the histories also gather relay candidates through a TURN server that takes a while to allocate;
	// half of those have, after the usable TURN URL, one the agent cannot use (no password): the gatherer gives up on
	// the URL list there, but the cycle's nil must still come after the relay candidate of the allocation it started
	types := []CandidateType{CandidateTypeHost, CandidateTypeServerReflexive}
	urls := []*stun.URI{uri}
	relayMode := rng.IntN(3)
	if relayMode == 0 {
		relayMode = 1 + rng.IntN(2)
		types = append(types, CandidateTypeRelay)
		turi, _ := stun.ParseURI("turn:10.255.0.9:3478?transport=udp")
		turi.Username, turi.Password = "user", "pass"
		urls = append(urls, turi)
		if relayMode == 2 {
			bad, _ := stun.ParseURI("turn:10.255.0.10:3478?transport=udp")
			bad.Username = "user"
			urls = append(urls, bad)
		}
		r.count("c11_gather_histories_with_relay", 1)
	} else {
		relayMode = 0
	}
	a, err := NewAgent(&AgentConfig{
		Net: vfSimpleNet(sw, "A", ips...), NetworkTypes: []NetworkType{NetworkTypeUDP4},
		CandidateTypes: types, Urls: urls,
		MulticastDNSMode: MulticastDNSModeDisabled, LoggerFactory: vfQuietLogger(), STUNGatherTimeout: &stunTO,
		LocalUfrag: ufrag(0), LocalPwd: "cyclepasswordcyclepassword000000",
	})
	if err != nil {
		r.inconclusive(1)
		r.note("c11 gather: %v", err)

		return
	}
	defer a.Close() //nolint:errcheck
	if relayMode != 0 {
		// the allocation is either quick or outlasts everything else in the cycle (STUN timeout 15 ms)
		delay := time.Duration(200+rng.IntN(3000)) * time.Microsecond
		if rng.IntN(2) == 0 {
			delay = time.Duration(18+rng.IntN(22)) * time.Millisecond
		}
		tally := &vfTurnTally{sw: sw, relayIP: "198.51.100.77", allocDelay: delay}
		a.turnClientFactory = tally.factory
	}
	type ev struct {
		nilCand bool
		ufrag   string
		typ     CandidateType
	}
	var mu sync.Mutex
	var log []ev
	var inH, overlap atomic.Int32
	slow := rng.IntN(3) == 0
	_ = a.OnCandidate(func(c Candidate) {
		if inH.Add(1) != 1 {
			overlap.Add(1)
		}
		x := ev{nilCand: c == nil}
		if c != nil {
			if ext, ok := c.GetExtension("ufrag"); ok {
				x.ufrag = ext.Value
			}
			x.typ = c.Type()
		}
		mu.Lock()
		log = append(log, x)
		mu.Unlock()
		if slow {
			time.Sleep(50 * time.Microsecond)
		}
		inH.Add(-1)
	})
	nCycles := 1 + rng.IntN(4)
	completed := map[int]bool{}
	maybe := map[int]bool{}
	var tGather time.Time
	var modes []string
	var dones []chan struct{}
	for c := 0; c < nCycles; c++ {
		if c > 0 {
			if err := a.Restart(ufrag(c), "cyclepasswordcyclepassword000000"); err != nil {
				r.note("restart: %v", err)

				break
			}
			// a cycle that was to be cancelled can only be said NOT to have completed when the Restart came well
			// within the STUN timeout that held it open; on a stalled machine it may have completed (and rightly
			// emitted its nil) before the Restart: then either outcome is accepted
			if modes[c-1] == "cancel" && time.Since(tGather) > stunTO/3 {
				maybe[c-1] = true
				r.count("c11_cancel_cycles_not_judged_slow_harness", 1)
			}
		}
		tGather = time.Now()
		if err := a.GatherCandidates(); err != nil {
			r.violation("gather-refused-after-restart", fmt.Sprintf("GatherCandidates in cycle %d (state New after Restart) failed: %v", c, err), map[string]any{"idx": idx})

			break
		}
		var done chan struct{}
		_ = a.loop.Run(a.loop, func(context.Context) { done = a.gatherCandidateDone })
		dones = append(dones, done)
		// wait for the STUN request of this cycle to reach the server
		var reqs []*vfDgram
		deadline := time.Now().Add(5 * time.Second)
		for len(reqs) == 0 && time.Now().Before(deadline) {
			reqs = append(reqs, srv.pump()...)
			if len(reqs) == 0 {
				time.Sleep(20 * time.Microsecond)
			}
		}
		if len(reqs) == 0 {
			r.inconclusive(1)
			r.note("no STUN request seen in cycle %d", c)

			return
		}
		// how this cycle ends: STUN reply at once / reply only after the query timed out / no reply (times out) / Restart
		mode := []string{"reply", "late-reply", "timeout", "cancel", "cancel"}[rng.IntN(5)]
		if c == nCycles-1 && mode == "cancel" {
			mode = "timeout" // keep the last cycle open long enough for cancelled ones to wind down inside it
		}
		modes = append(modes, mode)
		switch mode {
		case "reply":
			for _, q := range reqs {
				_, _ = srv.reply(q, netip.MustParseAddrPort(fmt.Sprintf("198.51.100.%d:%d", 10+c, 6000+c)))
			}
		case "late-reply":
			time.Sleep(22 * time.Millisecond)
			for _, q := range reqs {
				_, _ = srv.reply(q, netip.MustParseAddrPort(fmt.Sprintf("198.51.100.%d:%d", 10+c, 6000+c)))
			}
		case "cancel":
			if rng.IntN(2) == 0 {
				time.Sleep(time.Duration(rng.IntN(300)) * time.Microsecond) // Restart arrives while the srflx query is outstanding
			}

			continue
		}
		select {
		case <-done:
			completed[c] = true
		case <-time.After(10 * time.Second):
			r.inconclusive(1)
			r.note("cycle %d did not complete", c)

			return
		}
	}
	// let cancelled cycles wind down and the callback queue drain
	for _, d := range dones {
		select {
		case <-d:
		case <-time.After(10 * time.Second):
			r.inconclusive(1)
			r.note("a cancelled gather cycle did not wind down")

			return
		}
	}
	_ = vfAwaitNotifiers(a)
	mu.Lock()
	evs := append([]ev{}, log...)
	mu.Unlock()
	r.eval(1)
	// parse: per cycle in order: candidates with that cycle's ufrag, then nil iff completed
	rendered := []string{}
	for _, x := range evs {
		if x.nilCand {
			rendered = append(rendered, "nil")
		} else {
			rendered = append(rendered, x.typ.String()+"@"+x.ufrag)
		}
	}
	wit := map[string]any{"idx": idx, "cycles": nCycles, "cycle_endings": modes, "completed": fmt.Sprint(completed), "on_candidate_log": rendered}
	if overlap.Load() > 0 {
		r.violation("candidate-handler-overlap", "OnCandidate handler ran concurrently with itself", wit)
	}
	pos := 0
	for c := 0; c < nCycles; c++ {
		nils := 0
		for pos < len(evs) {
			x := evs[pos]
			if x.nilCand {
				nils++
				pos++

				break
			}
			if x.ufrag != ufrag(c) {
				break
			}
			pos++
		}
		if maybe[c] {
			continue
		}
		if completed[c] && nils != 1 {
			r.violation("gather-nil-missing", fmt.Sprintf("cycle %d ran to completion but its candidates were not followed by exactly one nil (log %v)", c, rendered), wit)

			break
		}
		if !completed[c] && nils != 0 {
			r.violation("gather-nil-from-cancelled-cycle", fmt.Sprintf("cycle %d was cancelled by Restart but emitted a nil candidate (log %v)", c, rendered), wit)

			break
		}
	}
	if pos != len(evs) {
		r.violation("gather-log-does-not-parse", fmt.Sprintf("OnCandidate log %v does not parse as per-cycle candidates (+ nil iff completed); stopped at position %d", rendered, pos), wit)
	}
	nC := 0
	for _, ok := range completed {
		if ok {
			nC++
		}
	}
	if relayMode != 0 {
		for _, x := range evs {
			if !x.nilCand && x.typ == CandidateTypeRelay {
				r.count("c11_relay_candidates_delivered", 1)
			}
		}
	}
	r.distinct(fmt.Sprintf("gathercycles/%v/ips%d/slow%v/relay%d", modes, nIP, slow, relayMode))
	_ = nC
	if idx < 4 {
		r.sample(wit)
	}
}

// vfC11AgentClose: the GracefulClose clause at agent level, for every way the agent can already have been closed.
// Slow handlers on all three streams; events are produced (gathering, restart, a connection against a scripted
// exchange is not needed: state and candidate events suffice); then Close() from the API or from inside a handler,
// overlapping or followed by GracefulClose().  When any GracefulClose call returns, no handler may be running and none
// may start afterwards.
func vfC11AgentClose(e *vfEnv, r *vfResult, idx int) { //nolint:cyclop
	rng := e.rng(idx, "agentclose")
	sw := newVfSwitch()
	nIP := 1 + rng.IntN(3)
	ips := []string{}
	for i := 0; i < nIP; i++ {
		ips = append(ips, fmt.Sprintf("10.0.%d.1", i))
	}
	a, err := NewAgent(&AgentConfig{
		Net: vfSimpleNet(sw, "A", ips...), NetworkTypes: []NetworkType{NetworkTypeUDP4}, CandidateTypes: []CandidateType{CandidateTypeHost},
		MulticastDNSMode: MulticastDNSModeDisabled, LoggerFactory: vfQuietLogger(),
	})
	if err != nil {
		r.inconclusive(1)

		return
	}
	var running, started atomic.Int32
	lat := time.Duration(rng.IntN(3000)) * time.Microsecond
	closeFromHandler := rng.IntN(3) == 0
	var closeOnce sync.Once
	handler := func() {
		running.Add(1)
		started.Add(1)
		if closeFromHandler {
			closeOnce.Do(func() { _ = a.Close() }) // non-graceful Close from inside a callback is allowed
		}
		time.Sleep(lat)
		running.Add(-1)
	}
	_ = a.OnCandidate(func(Candidate) { handler() })
	_ = a.OnConnectionStateChange(func(ConnectionState) { handler() })
	_ = a.OnSelectedCandidatePairChange(func(Candidate, Candidate) { handler() })
	_ = a.GatherCandidates()
	if rng.IntN(2) == 0 {
		time.Sleep(time.Duration(rng.IntN(1500)) * time.Microsecond)
		_ = a.Restart("", "")
		_ = a.GatherCandidates()
	}
	time.Sleep(time.Duration(rng.IntN(1500)) * time.Microsecond)
	script := []string{"close-then-graceful", "close||graceful", "graceful-only", "graceful||graceful"}[rng.IntN(4)]
	type res struct{ running, started int32 }
	results := make(chan res, 4)
	graceful := func() {
		_ = a.GracefulClose()
		results <- res{running.Load(), started.Load()}
	}
	nG := 1
	switch script {
	case "close-then-graceful":
		_ = a.Close()
		go graceful()
	case "close||graceful":
		go func() { _ = a.Close() }()
		go graceful()
	case "graceful-only":
		go graceful()
	default:
		nG = 2
		go graceful()
		go graceful()
	}
	r.eval(1)
	wit := map[string]any{"idx": idx, "script": script, "close_from_handler": closeFromHandler, "handler_latency_us": lat.Microseconds()}
	for i := 0; i < nG; i++ {
		select {
		case x := <-results:
			if x.running > 0 {
				r.violation("handler-running-when-graceful-close-returned", fmt.Sprintf("history %d (%s, Close from a handler: %v): %d handler(s) were running when GracefulClose returned", idx, script, closeFromHandler, x.running), wit)

				return
			}
			// nothing may start afterwards
			time.Sleep(2*lat + 200*time.Microsecond)
			if now := started.Load(); now != x.started {
				r.violation("handler-started-after-graceful-close", fmt.Sprintf("history %d (%s): %d handler invocation(s) started after GracefulClose had returned", idx, script, now-x.started), wit)

				return
			}
		case <-time.After(20 * time.Second):
			r.violation("graceful-close-stuck", fmt.Sprintf("history %d (%s): GracefulClose did not return", idx, script), map[string]any{"idx": idx, "stacks": vfStacks()})

			return
		}
	}
	r.distinct(fmt.Sprintf("agentclose/%s/cfh=%v/lat=%d", script, closeFromHandler, lat.Microseconds()/500))
}

func TestVerifC11(t *testing.T) {
	vfRun(t, "C11", func(e *vfEnv, r *vfResult) {
		n := e.n(3000, 120000)
		for i := 0; i < n; i++ {
			vfC11Notifier(e, r, i)
		}
		m := e.n(300, 12000)
		for i := 0; i < m; i++ {
			vfC11Gather(e, r, i)
		}
		for i := 0; i < e.n(300, 12000); i++ {
			vfC11AgentClose(e, r, i)
		}
	})
}
