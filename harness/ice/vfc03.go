//go:build verif

package ice

// C03 (scripted-peer part) and C05: one real agent against a scripted, correctly
// authenticated peer that misbehaves (early / repeated USE-CANDIDATE on any pair,
// withheld or late responses, same-role requests with chosen tie-breakers).

import (
	"context"
	"fmt"
	"net/netip"
	"strings"
	"testing"
	"time"

	"github.com/pion/stun/v3"
)

// setupAgentVsPeer creates agent A (given role) with nA local addresses and a peer with nP sockets;
// A is told the peer's sockets as host candidates with the given priorities.
func (s *vfSession) setupAgentVsPeer(cfg vfSideCfg, aControlling bool, nA, nP int, tell bool) error {
	cfg.Name = "A"
	for i := 0; i < nA; i++ {
		cfg.IPs = append(cfg.IPs, fmt.Sprintf("10.0.%d.1", i))
	}
	var err error
	if s.A, err = s.newSide(cfg); err != nil {
		return err
	}
	if err = s.A.gather(); err != nil {
		return err
	}
	ips := []string{}
	for i := 0; i < nP; i++ {
		ips = append(ips, fmt.Sprintf("10.9.%d.1", i))
	}
	if _, err = s.newPeer(ips...); err != nil {
		return err
	}
	if err = s.A.start(aControlling, s.P.ufrag, s.P.pwd); err != nil {
		return err
	}
	if tell {
		for i, c := range s.P.socks {
			// signalled priorities span the whole 32-bit range (a peer may use any): below, around and above 2^31
			prio := uint32(2130706431 - 1000*i) //nolint:gosec
			switch s.rng.IntN(5) {
			case 0:
				prio = 1<<31 + uint32(s.rng.IntN(1<<20)) //nolint:gosec
			case 1:
				prio = 1<<32 - 1 - uint32(s.rng.IntN(1<<20)) //nolint:gosec
			case 2:
				prio = 2130706432 + uint32(s.rng.IntN(16000000)) //nolint:gosec // above any local host priority, below 2^31
			}
			rc, err := NewCandidateHost(&CandidateHostConfig{Network: "udp", Address: c.local.Addr().String(), Port: int(c.local.Port()), Component: 1,
				Priority: prio})
			if err != nil {
				return err
			}
			s.step("addremote", "A", 0, "A told "+vfCandAddr(rc))
			s.A.addRemote(rc)
			s.afterStep()
		}
	}

	return nil
}

func (s *vfSession) aSockets() []netip.AddrPort {
	var out []netip.AddrPort
	for _, c := range s.A.localCands() {
		out = append(out, vfCandAP(c))
	}

	return out
}

// peerChaos lets the scripted peer and the scheduler act at random for n steps.
func (s *vfSession) peerChaos(n int, peerRole string, nominate bool, values bool) { //nolint:cyclop
	p := s.P
	aSocks := s.aSockets()
	if len(aSocks) == 0 {
		return
	}
	var held []*vfDgram // agent requests the peer has received but not yet answered
	nextNom := uint32(1)
	for i := 0; i < n && s.broken == ""; i++ {
		// look at what reached the peer
		for _, d := range p.take() {
			if d.Stun != nil && d.Stun.Class == "request" {
				held = append(held, d)
			}
		}
		ids := s.sw.inflightIDs()
		switch k := s.rng.IntN(14); {
		case k == 0:
			s.tickSide(s.A)
		case k <= 3: // the peer sends a check / nomination on a random pair
			sock := p.socks[s.rng.IntN(len(p.socks))]
			dst := aSocks[s.rng.IntN(len(aSocks))]
			o := vfReqOpts{Role: peerRole, Tie: p.tie, Priority: uint32(1845501695 + s.rng.IntN(1000))} //nolint:gosec
			if s.rng.IntN(4) == 0 {
				o.Priority = 1<<31 + uint32(s.rng.IntN(1<<31)) //nolint:gosec // PRIORITY of a would-be peer-reflexive candidate: any 32-bit value
			}
			if nominate && s.rng.IntN(2) == 0 {
				o.UseCand = true
				if values && s.rng.IntN(2) == 0 {
					v := nextNom
					if s.rng.IntN(4) == 0 && nextNom > 1 { // stale or equal value
						v = 1 + uint32(s.rng.IntN(int(nextNom))) //nolint:gosec
					} else {
						nextNom++
					}
					o.Nomination = &v
				}
				if o.Nomination == nil && s.rng.IntN(6) == 0 {
					// USE-CANDIDATE accompanied by a nomination attribute of the wrong size: it carries no value, so
					// the request is a plain USE-CANDIDATE and the priority guard applies to it
					bad := make([]byte, []int{0, 1, 2, 3, 5, 8}[s.rng.IntN(6)])
					for j := range bad {
						bad[j] = byte(s.rng.IntN(256))
					}
					o.Extra = append(o.Extra, stun.RawAttribute{Type: DefaultNominationAttribute, Value: bad})
					s.r.count("c03_use_candidate_with_malformed_nomination_attribute", 1)
				}
			}
			m := p.build(s.A, o)
			s.step("peer-request", "P", 0, fmt.Sprintf("%s->%s uc=%v nom=%v", sock.local, dst, o.UseCand, o.Nomination != nil))
			p.send(sock, dst, m.Raw)
			s.r.set("peer_actions", fmt.Sprintf("request uc=%v nom=%v", o.UseCand, o.Nomination != nil))
		case k <= 6 && len(held) > 0 && s.peerMute: // a peer that never answers: the agent's own checks run out of retries
			held = held[1:]
			s.r.set("peer_actions", "withhold (mute peer)")
		case k <= 6 && len(held) > 0: // answer one of the agent's checks (possibly late, out of order)
			j := s.rng.IntN(len(held))
			d := held[j]
			held = append(held[:j], held[j+1:]...)
			sock := p.sockFor(d.Dst)
			if sock != nil {
				s.step("peer-response", "P", d.ID, "")
				p.respond(d, sock, d.Src, p.pwd)
				s.r.set("peer_actions", "response")
			}
		case k == 7 && len(held) > 0 && len(aSocks) > 1 && s.rng.IntN(2) == 0:
			// answer a check on ANOTHER local socket of the agent than the one that sent it (correct transaction id and signature)
			d := held[0]
			held = held[1:]
			var other netip.AddrPort
			for _, a := range aSocks {
				if a != d.SrcPriv {
					other = a
				}
			}
			if sock := p.sockFor(d.Dst); sock != nil && other.IsValid() {
				s.step("peer-response-misdirected", "P", d.ID, fmt.Sprintf("sent from %s answered to %s", d.SrcPriv, other))
				p.respond(d, sock, other, p.pwd)
				s.r.set("peer_actions", "response-to-other-local-socket")
			}
		case k == 7 && len(held) > 0: // forget a request (never answered)
			held = held[1:]
			s.r.set("peer_actions", "withhold")
		case k == 8 && len(ids) > 0:
			s.drop(ids[s.rng.IntN(len(ids))])
		case k == 9 && len(ids) > 0:
			s.deliver(ids[s.rng.IntN(len(ids))], true)
		case len(ids) > 0:
			s.deliver(ids[s.rng.IntN(len(ids))], false)
		default:
			s.tickSide(s.A)
		}
	}
}

func vfC03PeerRun(e *vfEnv, r *vfResult, idx int) {
	s := newVfSession(e, r, idx, "c03peer")
	defer s.closeAll()
	mode := s.rng.IntN(5) // 0,1: controlled full; 2: lite controlled; 3: lite controlled with priority check; 4: controlling full
	cfg := vfSideCfg{MaxBinding: []uint16{1000, 1000, 3, 1}[s.rng.IntN(4)], TieBreaker: 4242}
	// with a small retry budget and a peer that stops answering, pairs reach Failed before a nomination arrives
	muteFrom := -1
	if cfg.MaxBinding < 1000 {
		muteFrom = s.rng.IntN(3)
	}
	switch mode {
	case 2:
		cfg.Lite = true
	case 3:
		cfg.Lite, cfg.CheckPrio = true, true
	}
	values := s.rng.IntN(3) == 0
	cfg.Renomination = values && s.rng.IntN(2) == 0
	s.desc["mode"] = map[string]any{"lite": cfg.Lite, "check_prio": cfg.CheckPrio, "nomination_values": values}
	nA, nP := 1+s.rng.IntN(2), 1+s.rng.IntN(3)
	agentControlling := mode == 4
	peerRole, peerNominates := "controlling", true
	if agentControlling {
		// the scripted peer plays the controlled side: plain checks, late / reordered / withheld / misdirected answers
		peerRole, peerNominates = "controlled", false
		cfg.Renomination = s.rng.IntN(3) == 0
	}
	if err := s.setupAgentVsPeer(cfg, agentControlling, nA, nP, s.rng.IntN(4) != 0); err != nil {
		r.inconclusive(1)
		r.note("setup: %v", err)

		return
	}
	if agentControlling && s.rng.IntN(2) == 0 {
		// the agent validates pairs and starts nominating; then it loses a role conflict (the peer claims the
		// controlling role with a larger tie-breaker) and from there on the peer sends plain checks and answers only:
		// nothing it does nominates a pair, so the agent - now controlled - must not select one on its own
		s.peerChaos(30+s.rng.IntN(120), peerRole, peerNominates, values)
		if sn := s.A.snapshot(); sn.Err == nil && sn.Controlling && sn.Selected == "" && s.broken == "" {
			aSocks := s.aSockets()
			if len(aSocks) > 0 {
				m := s.P.build(s.A, vfReqOpts{Role: "controlling", Tie: 1<<64 - 1})
				s.step("peer-request", "P", 0, "role conflict: ICE-CONTROLLING with the largest tie-breaker")
				d := s.P.send(s.P.socks[0], aSocks[0], m.Raw)
				s.deliver(d.ID, false)
				s.P.tie = 1<<64 - 1
				if sn2 := s.A.snapshot(); sn2.Err == nil && !sn2.Controlling {
					s.r.count("c03_peer_runs_with_role_switch_while_nominating", 1)
					s.peerChaos(40+s.rng.IntN(150), "controlling", false, false)
				}
			}
		}
		muteFrom = -2 // this run is over
	}
	switch muteFrom {
	case -2:
	case 0:
		s.peerMute = true
		s.peerChaos(40+s.rng.IntN(200), peerRole, peerNominates, values)
	case 1: // normal, then mute (with extra ticks so that retries run out), then normal again
		s.peerChaos(20+s.rng.IntN(60), peerRole, peerNominates, values)
		s.peerMute = true
		for i := 0; i < 2+int(cfg.MaxBinding); i++ {
			s.tickSide(s.A)
		}
		s.peerChaos(20+s.rng.IntN(100), peerRole, peerNominates, values)
		s.peerMute = false
		s.peerChaos(20+s.rng.IntN(60), peerRole, peerNominates, values)
	default:
		s.peerChaos(40+s.rng.IntN(200), peerRole, peerNominates, values)
	}
	s.emittedCheck(0)
	r.eval(1)
	r.count("steps", int64(s.stepN))
	if s.broken != "" {
		r.inconclusive(1)
		r.note("run %d lost quiescence: %s", idx, s.broken)

		return
	}
	failedPairs := 0
	if sn := s.A.snapshot(); sn.Err == nil {
		for _, p := range sn.Pairs {
			if p.State == CandidatePairStateFailed {
				failedPairs++
			}
		}
	}
	if failedPairs > 0 {
		r.count("c03_peer_runs_with_failed_pairs", 1)
	}
	r.distinct(fmt.Sprintf("peer/mode=%d/values=%v/nA=%d/nP=%d/steps=%d/maxbind=%d/mute=%d/failedpairs=%v", mode, values, nA, nP, s.stepN/40, cfg.MaxBinding, muteFrom, failedPairs > 0))
	if idx < 2 {
		s.A.mu.Lock()
		sel := append([]string{}, s.A.selEvents...)
		s.A.mu.Unlock()
		r.sample(map[string]any{"idx": idx, "kind": "agent-vs-scripted-peer", "mode": s.desc["mode"], "steps": s.stepN, "selected_pair_events": sel})
	}
}

// vfC03RenominateRace: RenominateCandidate called while a role conflict that the agent is about to lose is already
// queued on its task loop.  The loop is held by a gate task; the conflicting request is handed to the agent's reader
// (its task queues behind the gate); then RenominateCandidate is called (its task queues behind that); the gate opens.
// Whatever order the two tasks take, no USE-CANDIDATE may leave the agent while its role is controlled (the role is
// read at the moment of emission), and a renomination that is refused must not have sent anything.
func vfC03RenominateRace(e *vfEnv, r *vfResult, idx int) {
	s := newVfSession(e, r, idx, "c03renomrace")
	defer s.closeAll()
	if err := s.setupAgentVsPeer(vfSideCfg{MaxBinding: 1000, TieBreaker: 4242, Renomination: true}, true, 1, 1, true); err != nil {
		r.inconclusive(1)

		return
	}
	if !s.peerConnect() || s.broken != "" {
		r.inconclusive(1)

		return
	}
	s.dropAll()
	s.P.take()
	a := s.A.a
	locs, _ := a.GetLocalCandidates()
	rems, _ := a.GetRemoteCandidates()
	if len(locs) == 0 || len(rems) == 0 {
		r.inconclusive(1)

		return
	}
	gate, busy := make(chan struct{}), make(chan struct{})
	go func() { _ = a.loop.Run(a.loop, func(context.Context) { close(busy); <-gate }) }()
	<-busy
	// the conflict: same role, largest tie-breaker; handed to the reader without waiting for its (blocked) processing
	m := s.P.build(s.A, vfReqOpts{Role: "controlling", Tie: 1<<64 - 1})
	s.step("peer-request", "P", 0, "role conflict queued behind a held loop")
	d := s.P.send(s.P.socks[0], s.aSockets()[0], m.Raw)
	if !s.sw.handOver(d.ID, 2*time.Second) {
		close(gate)
		r.inconclusive(1)

		return
	}
	queued := false
	for dl := time.Now().Add(2 * time.Second); time.Now().Before(dl); time.Sleep(50 * time.Microsecond) {
		for _, g := range strings.Split(vfStacks(), "\n\n") {
			if strings.Contains(g, "handleInboundSTUNMessage") && strings.Contains(g, "taskloop.(*Loop).Run") {
				queued = true
			}
		}
		if queued {
			break
		}
	}
	w0 := s.sw.wireLen()
	res := make(chan error, 1)
	go func() { res <- a.RenominateCandidate(locs[0], rems[0]) }()
	time.Sleep(time.Duration(100+s.rng.IntN(400)) * time.Microsecond)
	close(gate)
	var rerr error
	select {
	case rerr = <-res:
	case <-time.After(10 * time.Second):
		r.violation("renominate-stuck", "RenominateCandidate did not return", map[string]any{"idx": idx, "stacks": vfStacks()})

		return
	}
	_ = s.A.awaitReaders()
	_ = a.loop.Run(a.loop, func(context.Context) {})
	r.eval(1)
	sn := s.A.snapshot()
	emittedUC := 0
	for _, dg := range s.sw.wireFrom(w0) {
		if dg.Emitter == "A" && dg.Stun != nil && dg.Stun.Class == "request" && dg.Stun.UseCand {
			emittedUC++
		}
	}
	wit := map[string]any{"idx": idx, "conflict_queued_first": queued, "renominate_error": fmt.Sprint(rerr), "use_candidate_requests": emittedUC, "controlling_afterwards": sn.Controlling}
	if rerr != nil && emittedUC > 0 {
		s.viol(s.e.prop, "refused-renomination-sent-use-candidate", fmt.Sprintf("RenominateCandidate returned %v but %d USE-CANDIDATE request(s) were sent", rerr, emittedUC), wit)
	}
	s.emittedCheck(0) // USE-CANDIDATE emitted while the role was controlled
	if queued && sn.Err == nil && !sn.Controlling {
		r.count("c03_renominate_behind_role_switch", 1)
	}
	r.distinct(fmt.Sprintf("renomrace/queued=%v/err=%v", queued, rerr != nil))
}

func TestVerifC03(t *testing.T) {
	vfRun(t, "C03", func(e *vfEnv, r *vfResult) {
		n := e.n(2000, 120000)
		for i := 0; i < n; i++ {
			if e.only >= 0 && i != e.only {
				continue
			}
			switch {
			case i%16 == 9:
				vfC03RenominateRace(e, r, i)
			case i%2 == 0:
				vfC01Run(e, r, i)
			default:
				vfC03PeerRun(e, r, i)
			}
		}
	})
}

// ---------------------------------------------------------------- C05

// vfC05Unit: one authenticated same-role request with tie-breaker T against an agent with tie-breaker L.
func vfC05Unit(e *vfEnv, r *vfResult, idx int, local, remote uint64, agentControlling bool, useCand bool, afterSelection bool) {
	s := newVfSession(e, r, idx, "c05unit")
	defer s.closeAll()
	s.desc["local_tiebreaker"], s.desc["remote_tiebreaker"], s.desc["agent_controlling"] = fmt.Sprint(local), fmt.Sprint(remote), agentControlling
	// one case in three: the sender's address was never signalled (a check that overtakes trickling, or a peer behind a NAT)
	told := afterSelection || idx%3 != 2
	s.desc["sender_address_signalled"] = told
	if err := s.setupAgentVsPeer(vfSideCfg{MaxBinding: 1000, TieBreaker: local}, agentControlling, 1, 1, told); err != nil {
		r.inconclusive(1)

		return
	}
	if local == 0 {
		s.A.a.tieBreaker = 0 // cfg value 0 means "leave random"; force it
	}
	s.desc["after_selection"] = afterSelection
	if afterSelection {
		// the conflict arrives only after a normal nomination exchange has completed
		if !s.peerConnect() {
			r.inconclusive(1)

			return
		}
		s.dropAll()
		s.P.take()
	}
	role := "controlled"
	if agentControlling {
		role = "controlling"
	}
	before := s.A.snapshot()
	w0 := s.sw.wireLen()
	m := s.P.build(s.A, vfReqOpts{Role: role, Tie: remote, UseCand: useCand})
	s.step("peer-request", "P", 0, "same-role request")
	d := s.P.send(s.P.socks[0], s.aSockets()[0], m.Raw)
	s.deliver(d.ID, false)
	after := s.A.snapshot()
	if s.broken != "" || before.Err != nil || after.Err != nil {
		r.inconclusive(1)

		return
	}
	r.eval(1)
	wantKeep := (agentControlling && local >= remote) || (!agentControlling && local < remote)
	emitted := s.sw.wireFrom(w0 + 1)
	var gotErr487, gotSuccess, gotOther bool
	for _, x := range emitted {
		if x.Emitter != "A" || x.Stun == nil {
			continue
		}
		switch {
		case x.Stun.Class == "error response" && x.Stun.ErrCode == 487 && x.Stun.TxID == d.Stun.TxID && x.Stun.AuthBy == "A.g0":
			gotErr487 = true
		case x.Stun.Class == "success response":
			gotSuccess = true
		default:
			gotOther = true
		}
	}
	kept := after.Controlling == agentControlling
	wit := map[string]any{"local": fmt.Sprint(local), "remote": fmt.Sprint(remote), "agent_controlling": agentControlling}
	cls := fmt.Sprintf("%s/keep=%v/after-selection=%v/sender-signalled=%v", role, wantKeep, afterSelection, told)
	r.sample(map[string]any{"kind": "same-role request", "agent_role": role, "local_tiebreaker": fmt.Sprint(local), "remote_tiebreaker": fmt.Sprint(remote),
		"after_selection": afterSelection, "expected_keep_and_487": wantKeep, "observed_kept": kept, "observed_487": gotErr487})
	r.set("c05_cases", cls)
	if gotSuccess {
		s.viol("C05", "conflict-answered-with-success", fmt.Sprintf("same-role request (agent %s, local %d, remote %d) was answered with a success response", role, local, remote), wit)
	}
	if wantKeep {
		if !kept {
			s.viol("C05", "conflict-wrong-switch:"+role, fmt.Sprintf("agent %s with tie-breaker %d must keep its role against %d but switched", role, local, remote), wit)
		}
		if !gotErr487 {
			s.viol("C05", "conflict-missing-487:"+role, fmt.Sprintf("agent %s with tie-breaker %d keeps its role against %d but sent no authenticated 487", role, local, remote), wit)
		}
	} else {
		if kept {
			s.viol("C05", "conflict-wrong-keep:"+role, fmt.Sprintf("agent %s with tie-breaker %d must switch role against %d but kept it", role, local, remote), wit)
		}
		if gotErr487 || gotOther {
			s.viol("C05", "conflict-switch-but-answered:"+role, fmt.Sprintf("agent %s switched role against tie-breaker %d but also sent an answer (487=%v other=%v)", role, remote, gotErr487, gotOther), wit)
		}
	}
	// never treated as a connectivity check: no selection, no nomination flag, no pair state change
	if after.Selected != before.Selected {
		s.viol("C05", "conflict-request-selected-pair", "a role-conflicting request changed the selected pair", wit)
	}
	for i, p := range after.Pairs {
		if i < len(before.Pairs) && before.Pairs[i].ID == p.ID && before.Pairs[i].NomOnSucc == p.NomOnSucc && before.Pairs[i].Nominated == p.Nominated {
			continue
		}
		if p.NomOnSucc || p.Nominated {
			s.viol("C05", "conflict-request-nominated", fmt.Sprintf("a role-conflicting request left pair %s|%s nominated", p.Local, p.Remote), wit)
		}
	}
	// the role attribute of the agent's next own request reflects the decision
	w1 := s.sw.wireLen()
	s.tickSide(s.A)
	for _, x := range s.sw.wireFrom(w1) {
		if x.Emitter == "A" && x.Stun != nil && x.Stun.Class == "request" {
			wantRole := role
			if !wantKeep {
				wantRole = map[string]string{"controlling": "controlled", "controlled": "controlling"}[role]
			}
			if x.Stun.Role != wantRole {
				s.viol("C05", "conflict-next-request-role", fmt.Sprintf("after the conflict the agent's next request carries role %q, want %q", x.Stun.Role, wantRole), wit)
			}
		}
	}
}

// vfC05System: both agents start in the same role with distinct tie-breakers, random schedule, then C01's oracle.
func vfC05System(e *vfEnv, r *vfResult, idx int) {
	s := newVfSession(e, r, idx, "c05sys")
	defer s.closeAll()
	t := vfGenTopo(s)
	t.Unreach = nil // conflicts are about roles; keep the topology connected
	t.clearNAT()
	for ip := range t.SignalA {
		t.SignalA[ip] = "host"
	}
	for ip := range t.SignalB {
		t.SignalB[ip] = "host"
	}
	ta := s.rng.Uint64()
	tb := s.rng.Uint64()
	switch s.rng.IntN(4) {
	case 0:
		tb = ta + 1
	case 1:
		tb = ta - 1
	case 2:
		ta, tb = 1<<64-1, 1<<64-2
	}
	if ta == tb || ta == 0 || tb == 0 {
		ta, tb = 10, 11
	}
	bothControlling := s.rng.IntN(2) == 0
	s.desc["topology"], s.desc["tie_a"], s.desc["tie_b"], s.desc["both_controlling"] = t, fmt.Sprint(ta), fmt.Sprint(tb), bothControlling
	if err := s.setupPair(t, vfSideCfg{MaxBinding: 1000, TieBreaker: ta}, vfSideCfg{MaxBinding: 1000, TieBreaker: tb}, bothControlling, bothControlling); err != nil {
		r.inconclusive(1)

		return
	}
	pending, err := s.signalList(t)
	if err != nil {
		r.inconclusive(1)

		return
	}
	// one start in three: one side is never told the other's candidates and learns them as peer-reflexive only, so
	// every conflicting request it receives comes from an address it does not know yet
	oneWay := ""
	if s.rng.IntN(3) == 0 {
		deaf := s.A
		if s.rng.IntN(2) == 0 {
			deaf = s.B
		}
		oneWay = deaf.name
		var kept []vfPendingSignal
		for _, p := range pending {
			if p.to != deaf {
				kept = append(kept, p)
			}
		}
		pending = kept
	}
	s.desc["never_told_side"] = oneWay
	budget := map[*vfSide]int{s.A: 30, s.B: 30}
	s.chaos(s.rng.IntN(150), budget, &pending, true)
	rounds := s.fairSuffix(&pending, 16, func() bool { ok, _ := s.bothConnectedMirror(); return ok && len(s.sw.inflightIDs()) == 0 })
	s.emittedCheck(0)
	r.eval(1)
	if s.broken != "" {
		r.inconclusive(1)
		r.note("run %d lost quiescence: %s", idx, s.broken)

		return
	}
	if time.Since(s.start) > 3*time.Second {
		r.outOfScope(1)

		return
	}
	sa, sb := s.A.snapshot(), s.B.snapshot()
	r.distinct(fmt.Sprintf("sys/both=%v/a>b=%v/adjacent=%v/a=%d/b=%d/nevertold=%s", bothControlling, ta > tb, ta-tb == 1 || tb-ta == 1, len(t.AIPs), len(t.BIPs), oneWay))
	if sa.Controlling == sb.Controlling {
		s.viol("C05", "same-role-after-conflict", fmt.Sprintf("both agents started %v-controlling with tie-breakers %d / %d and still have the same role after the fair suffix", bothControlling, ta, tb), nil)

		return
	}
	if ok, why := s.bothConnectedMirror(); !ok {
		s.viol("C05", "no-convergence-after-conflict", fmt.Sprintf("roles resolved (A controlling=%v) but after %d fair rounds: %s", sa.Controlling, rounds, why), nil)

		return
	}
	r.count("system_converged", 1)
	if idx < 1000002 {
		r.sample(map[string]any{"idx": idx, "kind": "same-role start", "both_controlling": bothControlling, "tie_a": fmt.Sprint(ta), "tie_b": fmt.Sprint(tb), "a_controlling_at_end": sa.Controlling, "steps": s.stepN})
	}
}

func TestVerifC05(t *testing.T) {
	vfRun(t, "C05", func(e *vfEnv, r *vfResult) {
		// boundary pairs, exhaustively, both roles, with and without USE-CANDIDATE
		bvals := []uint64{0, 1, 2, 1<<63 - 1, 1 << 63, 1<<63 + 1, 1<<64 - 2, 1<<64 - 1}
		idx := 0
		for _, l := range bvals {
			for _, rm := range bvals {
				for _, ctrl := range []bool{true, false} {
					idx++
					if idx%e.nshards != e.shard || (e.only >= 0 && idx != e.only) {
						continue
					}
					vfC05Unit(e, r, idx, l, rm, ctrl, idx%3 == 0, idx%4 == 1)
					r.distinct(fmt.Sprintf("unit-b/%d/%d/%v", l, rm, ctrl))
				}
			}
		}
		rng := e.rng(0, "c05units")
		n := e.n(1500, 60000)
		for i := 0; i < n; i++ {
			l, rm := rng.Uint64(), rng.Uint64()
			switch i % 4 {
			case 1:
				rm = l
			case 2:
				rm = l + 1
			case 3:
				rm = l - 1
			}
			if e.only >= 0 && 1000+i != e.only {
				continue
			}
			vfC05Unit(e, r, 1000+i, l, rm, i%2 == 0, i%5 == 0, i%3 == 0)
			r.distinct(fmt.Sprintf("unit-r/%v/%v/%v/%v", l >= rm, l == rm, i%2 == 0, i%3 == 0))
		}
		m := e.n(600, 40000)
		for i := 0; i < m; i++ {
			if e.only >= 0 && 1000000+i != e.only {
				continue
			}
			vfC05System(e, r, 1000000+i)
		}
	})
}

var _ = strings.Contains
