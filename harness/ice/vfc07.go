//go:build verif

package ice

// C07: application data travels only over validated pairs and only from known peers.
// Conservation monitor over uniquely tagged payloads: the switch shows which socket and
// destination every written payload used; the harness knows which inbound datagrams are
// eligible (non-STUN, from a known remote candidate); what Conn.Read yields must equal them.

import (
	"encoding/binary"
	"errors"
	"fmt"
	"io"
	"net/netip"
	"sort"
	"strings"
	"testing"

	"github.com/pion/stun/v3"
)

type vfDataState struct {
	seq        uint32
	bytesSent  uint64         // accepted by Write
	bytesRecv  uint64         // returned by Read
	eligible   map[string]int // payloads that must reach the reader (multiset), not yet read
	read       int
	selAtTally string
	selSentPk  uint32
	selSentBy  uint64
	selRecvPk  uint32
	selRecvBy  uint64
	basePair   vfPairSnap
}

func (s *vfSession) data(x *vfSide) *vfDataState {
	if s.dataSt == nil {
		s.dataSt = map[*vfSide]*vfDataState{}
	}
	d := s.dataSt[x]
	if d == nil {
		d = &vfDataState{eligible: map[string]int{}}
		s.dataSt[x] = d
	}

	return d
}

func (s *vfSession) mkPayload(x *vfSide, stunLike bool) []byte {
	d := s.data(x)
	d.seq++
	n := 1 + s.rng.IntN(1200)
	switch s.rng.IntN(10) {
	case 0:
		n = 1 + s.rng.IntN(8)
	case 1:
		n = 1 + s.rng.IntN(8100)
	}
	if n < 12 {
		n = 12
	}
	if stunLike && n < 20 {
		n = 20
	}
	p := make([]byte, n)
	for i := range p {
		p[i] = byte(s.rng.IntN(256))
	}
	if stunLike {
		// a well-formed STUN header: type (two top bits zero), length multiple of 4 matching, magic cookie
		l := (n - 20) &^ 3
		p = p[:20+l]
		binary.BigEndian.PutUint16(p[0:], 0x0001)
		binary.BigEndian.PutUint16(p[2:], uint16(l)) //nolint:gosec
		if s.rng.IntN(2) == 0 {
			// not a well-formed header, but still what every receiver treats as STUN (magic cookie at offset 4):
			// e.g. an RTP packet (first byte 0x80) whose timestamp happens to equal the cookie
			p[0] = []byte{0x80, 0x90, 0x04, 0x40, 0xC0, 0xFF}[s.rng.IntN(6)]
			p[1] = byte(s.rng.IntN(256))
			binary.BigEndian.PutUint16(p[2:], uint16(s.rng.IntN(65536))) //nolint:gosec
		}
		binary.BigEndian.PutUint32(p[4:], 0x2112A442)
		binary.BigEndian.PutUint32(p[8:], uint32(s.idx))
		binary.BigEndian.PutUint32(p[12:], d.seq)
		p[16] = x.name[0]
	} else {
		p[0] = 0x80 | p[0]&0x3f // first two bits not 00: cannot be taken for STUN
		binary.BigEndian.PutUint32(p[1:], uint32(s.idx))
		binary.BigEndian.PutUint32(p[5:], d.seq)
		p[9] = x.name[0]
	}

	return p
}

// refDataPairs lists the (local, remote) address pairs over which a write may legally leave.
func vfRefDataPairs(sn *vfSnap) []string {
	if sn.Selected != "" {
		return []string{sn.Selected}
	}
	var best uint64
	var out []string
	for _, p := range sn.Pairs {
		if p.State != CandidatePairStateSucceeded {
			continue
		}
		pr := p.Prio // the agent's pair priority (formula: C17; kept across supersession: C06)
		switch {
		case len(out) == 0 || pr > best:
			best, out = pr, []string{p.Local + "|" + p.Remote}
		case pr == best:
			out = append(out, p.Local+"|"+p.Remote)
		}
	}

	return out
}

func (s *vfSession) writeStep(x *vfSide, stunLike bool) {
	if s.broken != "" || x.closed || x.conn == nil {
		return
	}
	sn := x.snapshot()
	if sn.Err != nil {
		return
	}
	d := s.data(x)
	payload := s.mkPayload(x, stunLike)
	w0 := s.sw.wireLen()
	failing := !stunLike && s.rng.IntN(10) == 0
	if failing {
		s.sw.mu.Lock()
		s.sw.failWrite[x.name] = 1
		s.sw.mu.Unlock()
	}
	s.step("write", x.name, 0, fmt.Sprintf("len=%d stunlike=%v socketfails=%v", len(payload), stunLike, failing))
	n, err := x.conn.Write(payload)
	s.sw.mu.Lock()
	s.sw.failWrite[x.name] = 0
	s.sw.mu.Unlock()
	emitted := []*vfDgram{}
	for _, dg := range s.sw.wireFrom(w0) {
		if dg.Emitter == x.name {
			emitted = append(emitted, dg)
		}
	}
	legal := vfRefDataPairs(sn)
	s.r.count("c07_writes", 1)
	wit := map[string]any{"side": x.name, "len": len(payload), "legal_pairs": legal}
	switch {
	case stunLike:
		s.r.set("c07_write_kinds", "stun-like")
		if err == nil || n != 0 || len(emitted) != 0 {
			s.viol("C07", "write-accepted-stun", fmt.Sprintf("%s.Write accepted a payload that parses as STUN (n=%d err=%v, %d datagram(s) emitted)", x.name, n, err, len(emitted)), wit)
		}
	case len(legal) == 0:
		s.r.set("c07_write_kinds", "no-valid-pair")
		if err == nil || len(emitted) != 0 {
			s.viol("C07", "write-without-valid-pair", fmt.Sprintf("%s.Write with no validated pair: n=%d err=%v, %d datagram(s) emitted", x.name, n, err, len(emitted)), wit)
		} else if !errors.Is(err, ErrNoCandidatePairs) {
			s.r.set("c07_write_errors", err.Error())
		}
	case failing:
		s.r.set("c07_write_kinds", "socket-write-fails")
		if len(emitted) != 0 {
			s.viol("C07", "write-emission", fmt.Sprintf("%s.Write on a failing socket still emitted %d datagram(s)", x.name, len(emitted)), wit)
		}
		if n > 0 {
			s.viol("C07", "write-counted-though-failed", fmt.Sprintf("%s.Write returned n=%d although the socket write failed", x.name, n), wit)
		}
	default:
		if sn.Selected != "" {
			s.r.set("c07_write_kinds", "selected")
		} else {
			s.r.set("c07_write_kinds", "best-valid-before-selection")
		}
		if err != nil || n != len(payload) {
			s.viol("C07", "write-failed-with-valid-pair", fmt.Sprintf("%s.Write failed although %v is validated: n=%d err=%v", x.name, legal, n, err), wit)

			break
		}
		if len(emitted) != 1 || string(emitted[0].Data) != string(payload) {
			s.viol("C07", "write-emission", fmt.Sprintf("%s.Write of %d bytes produced %d datagram(s) (payload identical: %v)", x.name, len(payload), len(emitted), len(emitted) == 1 && string(emitted[0].Data) == string(payload)), wit)

			break
		}
		dg := emitted[0]
		nt := strings.SplitN(legal[0], "/", 2)[0]
		used := fmt.Sprintf("%s/%s|%s/%s", nt, dg.SrcPriv, nt, dg.Dst)
		ok := false
		for _, l := range legal {
			if l == used {
				ok = true
			}
		}
		if !ok {
			s.viol("C07", "write-wrong-pair", fmt.Sprintf("%s.Write left through %s, but the selected/best validated pair is %v", x.name, used, legal), wit)
		}
		d.bytesSent += uint64(n) //nolint:gosec
		if sn.Selected != "" && sn.Selected == d.selAtTally {
			d.selSentPk++
			d.selSentBy += uint64(n) //nolint:gosec
		}
	}
	if got := x.conn.BytesSent(); got != d.bytesSent {
		s.viol("C07", "bytes-sent-counter", fmt.Sprintf("%s: Conn.BytesSent()=%d, payload bytes accepted by Write=%d", x.name, got, d.bytesSent), wit)
	}
	s.afterStep()
}

// writeToPairStep: Conn.WriteToPair sends application data over ONE named pair.  It must refuse STUN-like payloads,
// unknown pair ids and pairs that are not validated (Succeeded), and otherwise emit exactly one datagram with the
// payload from that pair's local socket to that pair's remote address.
func (s *vfSession) writeToPairStep(x *vfSide, stunLike bool) {
	if s.broken != "" || x.closed || x.conn == nil {
		return
	}
	sn := x.snapshot()
	if sn.Err != nil {
		return
	}
	infos := x.conn.GetCandidatePairsInfo()
	d := s.data(x)
	var id uint64
	var target *vfPairSnap
	switch {
	case len(infos) == 0 || s.rng.IntN(8) == 0:
		id = 1000000 + uint64(s.rng.IntN(1000)) //nolint:gosec // an id that was never handed out
	default:
		id = infos[s.rng.IntN(len(infos))].ID
		for i := range sn.Pairs {
			if sn.Pairs[i].ID == id {
				target = &sn.Pairs[i]
			}
		}
	}
	payload := s.mkPayload(x, stunLike)
	w0 := s.sw.wireLen()
	s.step("write-to-pair", x.name, 0, fmt.Sprintf("id=%d len=%d stunlike=%v", id, len(payload), stunLike))
	n, err := x.conn.WriteToPair(id, payload)
	var emitted []*vfDgram
	for _, dg := range s.sw.wireFrom(w0) {
		if dg.Emitter == x.name {
			emitted = append(emitted, dg)
		}
	}
	s.r.count("c07_writes_to_pair", 1)
	wit := map[string]any{"side": x.name, "pair_id": id, "len": len(payload)}
	switch {
	case stunLike:
		s.r.set("c07_write_to_pair_kinds", "stun-like")
		if err == nil || n != 0 || len(emitted) != 0 {
			s.viol("C07", "write-to-pair-accepted-stun", fmt.Sprintf("%s.WriteToPair accepted a payload that parses as STUN (n=%d err=%v, %d datagram(s) emitted)", x.name, n, err, len(emitted)), wit)
		}
	case target == nil:
		s.r.set("c07_write_to_pair_kinds", "unknown-id")
		if err == nil || len(emitted) != 0 {
			s.viol("C07", "write-to-unknown-pair", fmt.Sprintf("%s.WriteToPair(%d): no such pair is listed, yet n=%d err=%v, %d datagram(s) emitted", x.name, id, n, err, len(emitted)), wit)
		}
	case target.State != CandidatePairStateSucceeded:
		s.r.set("c07_write_to_pair_kinds", "not-validated:"+target.State.String())
		if err == nil || len(emitted) != 0 {
			s.viol("C07", "write-to-unvalidated-pair", fmt.Sprintf("%s.WriteToPair on pair %s|%s in state %s: n=%d err=%v, %d datagram(s) emitted", x.name, target.Local, target.Remote, target.State, n, err, len(emitted)), wit)
		}
	default:
		s.r.set("c07_write_to_pair_kinds", "validated")
		if err != nil || n != len(payload) {
			s.viol("C07", "write-to-pair-failed", fmt.Sprintf("%s.WriteToPair on the validated pair %s|%s failed: n=%d err=%v", x.name, target.Local, target.Remote, n, err), wit)

			break
		}
		nt := strings.SplitN(target.Local, "/", 2)[0]
		if len(emitted) != 1 || string(emitted[0].Data) != string(payload) ||
			fmt.Sprintf("%s/%s|%s/%s", nt, emitted[0].SrcPriv, nt, emitted[0].Dst) != target.Local+"|"+target.Remote {
			used := ""
			if len(emitted) > 0 {
				used = fmt.Sprintf("%s/%s|%s/%s", nt, emitted[0].SrcPriv, nt, emitted[0].Dst)
			}
			s.viol("C07", "write-to-pair-emission", fmt.Sprintf("%s.WriteToPair on %s|%s produced %d datagram(s), first over %s", x.name, target.Local, target.Remote, len(emitted), used), wit)

			break
		}
		if sn.Selected != "" && sn.Selected == d.selAtTally && target.Local+"|"+target.Remote == sn.Selected {
			d.selSentPk++
			d.selSentBy += uint64(n) //nolint:gosec
		}
	}
	s.afterStep()
}

// floodStep: the reader falls behind.  The peer's data keeps arriving while nothing is read until the agent's receive
// buffer (1 MB) overflows; then the reader drains it.  Which datagrams were dropped is the buffer's business; what is
// checked is the accounting: the selected pair's received counters and Conn.BytesReceived advance by exactly what the
// reader finally got.
func (s *vfSession) floodStep(x *vfSide) {
	peer := s.other(x)
	if s.broken != "" || x.closed || peer == nil || peer.closed || x.conn == nil || peer.conn == nil {
		return
	}
	sn := x.snapshot()
	psn := peer.snapshot()
	if sn.Err != nil || psn.Err != nil || sn.Selected == "" || psn.Selected == "" {
		return
	}
	s.afterStepC07() // everything read and tallied up to here
	var base vfPairSnap
	for _, p := range sn.Pairs {
		if p.IsSel {
			base = p
		}
	}
	recv0 := x.conn.BytesReceived()
	s.step("flood", x.name, 0, "peer data without a reader until the receive buffer overflows")
	s.mon.c07 = false
	payload := make([]byte, 1200)
	payload[0] = 0x90
	for i := 0; i < 1000 && s.broken == ""; i++ {
		binary.BigEndian.PutUint32(payload[1:], uint32(i)) //nolint:gosec
		w0 := s.sw.wireLen()
		if _, err := peer.conn.Write(payload); err != nil {
			break
		}
		for _, dg := range s.sw.wireFrom(w0) {
			if dg.Emitter == peer.name && dg.Stun == nil {
				if _, err := s.sw.deliverID(dg.ID, false); err != nil {
					s.broken = err.Error()
				}
			}
		}
	}
	s.dropAll()
	s.mon.c07 = true
	if s.broken != "" {
		return
	}
	var bytes, reads uint64
	buf := make([]byte, 9000)
	for x.a.buf.Count() > 0 {
		n, err := x.conn.Read(buf)
		if err != nil {
			break
		}
		bytes += uint64(n) //nolint:gosec
		reads++
	}
	after := x.snapshot()
	if after.Err != nil {
		return
	}
	s.r.count("c07_floods", 1)
	if reads < 1000 {
		s.r.count("c07_floods_that_overflowed_the_buffer", 1)
	}
	wit := map[string]any{"side": x.name, "datagrams_sent": 1000, "datagrams_read": reads, "bytes_read": bytes}
	if got := x.conn.BytesReceived() - recv0; got != bytes {
		s.viol("C07", "bytes-received-counter", fmt.Sprintf("%s: during the flood Conn.BytesReceived advanced by %d, Read returned %d bytes", x.name, got, bytes), wit)
	}
	if after.Selected == sn.Selected {
		for _, p := range after.Pairs {
			if p.IsSel && (uint64(p.PktRecv-base.PktRecv) != reads || p.BytesRecv-base.BytesRecv != bytes) {
				s.viol("C07", "pair-received-counters", fmt.Sprintf("%s: during the flood the selected pair's counters advanced by %d packets / %d bytes received, the reader got %d / %d", x.name, p.PktRecv-base.PktRecv, p.BytesRecv-base.BytesRecv, reads, bytes), wit)
			}
		}
	}
	// resynchronise the running tallies of both sides with the counters
	for _, y := range s.sides() {
		d := s.data(y)
		d.eligible = map[string]int{}
		d.selAtTally = "\x00resync"
		if y.conn != nil {
			d.bytesRecv, d.bytesSent = y.conn.BytesReceived(), y.conn.BytesSent()
		}
	}
}

// injectData places a data datagram from an arbitrary source towards one of x's sockets.
func (s *vfSession) injectData(x *vfSide, known bool, stunLike bool) {
	sn := x.snapshot()
	if sn.Err != nil || len(sn.Locals) == 0 {
		return
	}
	lc := sn.Locals[s.rng.IntN(len(sn.Locals))]
	dst, err := netip.ParseAddrPort(strings.SplitN(lc.Addr, "/", 2)[1])
	if err != nil {
		return
	}
	var src netip.AddrPort
	if !known && x.otherTransportAddr.IsValid() && s.rng.IntN(3) == 0 && dst.Addr().Is4() {
		// an address the agent knows only as a remote TCP candidate, used as the source of a UDP datagram
		payload := s.mkPayload(x, stunLike)
		s.step("inject-data", x.name, 0, fmt.Sprintf("from %s known-on-other-transport stunlike=%v", x.otherTransportAddr, stunLike))
		dg := s.sw.inject(x.otherTransportAddr, dst, payload)
		s.r.set("c07_inbound_kinds", fmt.Sprintf("known-on-other-transport/stunlike=%v", stunLike))
		s.deliver(dg.ID, false)

		return
	}
	if known && len(sn.Remotes) > 0 {
		var cands []netip.AddrPort
		for _, rc := range sn.Remotes {
			if rc.NT == lc.NT {
				if ap, err := netip.ParseAddrPort(strings.SplitN(rc.Addr, "/", 2)[1]); err == nil {
					cands = append(cands, ap)
				}
			}
		}
		if len(cands) == 0 {
			return
		}
		src = cands[s.rng.IntN(len(cands))]
	} else {
		known = false
		src = netip.AddrPortFrom(netip.MustParseAddr(fmt.Sprintf("172.31.%d.%d", s.rng.IntN(250), 1+s.rng.IntN(250))), uint16(1024+s.rng.IntN(60000))) //nolint:gosec
		if dst.Addr().Is6() {
			src = netip.AddrPortFrom(netip.MustParseAddr(fmt.Sprintf("fd77::%x", 1+s.rng.IntN(65000))), src.Port())
		}
		if s.rng.IntN(3) == 0 && len(sn.Remotes) > 0 { // right IP, wrong port
			if ap, err := netip.ParseAddrPort(strings.SplitN(sn.Remotes[0].Addr, "/", 2)[1]); err == nil && ap.Addr().Is4() == dst.Addr().Is4() {
				src = netip.AddrPortFrom(ap.Addr(), ap.Port()+1)
			}
		}
	}
	payload := s.mkPayload(x, stunLike)
	s.step("inject-data", x.name, 0, fmt.Sprintf("from %s known=%v stunlike=%v", src, known, stunLike))
	dg := s.sw.inject(src, dst, payload)
	s.r.set("c07_inbound_kinds", fmt.Sprintf("known=%v/stunlike=%v", known, stunLike))
	s.deliver(dg.ID, false)
}

// noteDataDelivery is called by deliver() before a datagram is handed over: if it is application
// data for one of the agents it records whether it is eligible for the reader.
func (s *vfSession) noteDataDelivery(id int) {
	var dg *vfDgram
	s.sw.mu.Lock()
	for _, d := range s.sw.inflight {
		if d.ID == id {
			dg = d
		}
	}
	s.sw.mu.Unlock()
	if dg == nil {
		return
	}
	var to *vfSide
	var sock netip.AddrPort
	if dp, ok := s.sw.priv(dg.Dst); ok {
		sock = dp
		s.sw.mu.Lock()
		ep := s.sw.eps[dp]
		s.sw.mu.Unlock()
		if ep != nil {
			for _, x := range s.sides() {
				if x.name == ep.owner && !x.closed && ep.waiting.Load() > 0 {
					to = x
				}
			}
		}
	}
	if to == nil || dg.Stun != nil || vfLooksLikeStun(dg.Data) {
		return
	}
	eligible := false
	sn := to.snapshot()
	if sn.Err == nil && to.started {
		nt := ""
		for _, lc := range sn.Locals {
			if strings.HasSuffix(lc.Addr, "/"+sock.String()) {
				nt = strings.SplitN(lc.Addr, "/", 2)[0]
			}
		}
		for _, rc := range sn.Remotes {
			if nt != "" && rc.Addr == nt+"/"+dg.Src.String() {
				eligible = true
			}
		}
	}
	if eligible {
		d := s.data(to)
		d.eligible[string(dg.Data)]++
		if sn.Selected != "" && sn.Selected == d.selAtTally {
			d.selRecvPk++
			d.selRecvBy += uint64(len(dg.Data))
		}
		s.r.count("c07_eligible_inbound", 1)
	} else {
		s.r.count("c07_ineligible_inbound", 1)
	}
}

func (s *vfSession) deliverData(id int) { s.deliver(id, false) }

func vfLooksLikeStun(b []byte) bool {
	return stun.IsMessage(b)
}

// afterStepC07 drains the readers and compares with the eligible multiset; checks the counters.
func (s *vfSession) afterStepC07() {
	if s.broken != "" {
		return
	}
	for _, x := range s.sides() {
		if x.closed || x.conn == nil {
			continue
		}
		d := s.data(x)
		for x.a.buf.Count() > 0 {
			buf := make([]byte, 9000)
			short := s.rng.IntN(6) == 0
			if short {
				buf = make([]byte, 1+s.rng.IntN(11)) // the application reads with a slice shorter than any datagram (>= 12 bytes)
			}
			n, err := x.conn.Read(buf)
			if err != nil && !(short && errors.Is(err, io.ErrShortBuffer)) {
				break
			}
			d.bytesRecv += uint64(n) //nolint:gosec // what Read returned, also when it reported a short buffer
			d.read++
			key := string(buf[:n])
			if short {
				s.r.count("c07_short_reads", 1)
				// the datagram is consumed; it is identified by its prefix
				key = ""
				for k := range d.eligible {
					if strings.HasPrefix(k, string(buf[:n])) && (key == "" || k < key) {
						key = k
					}
				}
				if key == "" {
					s.viol("C07", "read-unexpected-payload", fmt.Sprintf("%s.Read (short slice) returned %d bytes that are the prefix of no eligible delivered datagram", x.name, n), nil)

					continue
				}
				d.eligible[key]--
				if d.eligible[key] == 0 {
					delete(d.eligible, key)
				}

				continue
			}
			if vfLooksLikeStun(buf[:n]) {
				s.viol("C07", "read-yielded-stun", fmt.Sprintf("%s.Read returned %d bytes that parse as a STUN header", x.name, n), nil)
			}
			if d.eligible[key] == 0 {
				s.viol("C07", "read-unexpected-payload", fmt.Sprintf("%s.Read returned a %d-byte payload that no eligible delivered datagram carried (unknown source, duplicate, or altered)", x.name, n), nil)
			} else {
				d.eligible[key]--
				if d.eligible[key] == 0 {
					delete(d.eligible, key)
				}
			}
		}
		if len(d.eligible) > 0 {
			lens := []int{}
			for k := range d.eligible {
				lens = append(lens, len(k))
			}
			sort.Ints(lens)
			s.viol("C07", "read-lost-payload", fmt.Sprintf("%s: %d eligible delivered payload(s) (lengths %v) never reached the reader", x.name, len(d.eligible), lens), nil)
			d.eligible = map[string]int{}
		}
		if got := x.conn.BytesReceived(); got != d.bytesRecv {
			s.viol("C07", "bytes-received-counter", fmt.Sprintf("%s: Conn.BytesReceived()=%d, payload bytes returned by Read=%d", x.name, got, d.bytesRecv), nil)
		}
		// pair counters while one pair stays selected
		sn := x.snapshot()
		if sn.Err != nil {
			continue
		}
		if sn.Selected != d.selAtTally {
			d.selAtTally, d.selSentPk, d.selSentBy, d.selRecvPk, d.selRecvBy = sn.Selected, 0, 0, 0, 0
			for _, p := range sn.Pairs {
				if p.IsSel {
					d.basePair = p
				}
			}

			continue
		}
		for _, p := range sn.Pairs {
			if !p.IsSel {
				continue
			}
			if p.PktSent-d.basePair.PktSent != d.selSentPk || p.BytesSent-d.basePair.BytesSent != d.selSentBy {
				s.viol("C07", "pair-sent-counters", fmt.Sprintf("%s: selected pair counters advanced by %d packets / %d bytes sent, writes tallied %d / %d", x.name, p.PktSent-d.basePair.PktSent, p.BytesSent-d.basePair.BytesSent, d.selSentPk, d.selSentBy), nil)
				d.selAtTally = "\x00resync"
			}
			if p.PktRecv-d.basePair.PktRecv != d.selRecvPk || p.BytesRecv-d.basePair.BytesRecv != d.selRecvBy {
				s.viol("C07", "pair-received-counters", fmt.Sprintf("%s: selected pair counters advanced by %d packets / %d bytes received, eligible deliveries tallied %d / %d", x.name, p.PktRecv-d.basePair.PktRecv, p.BytesRecv-d.basePair.BytesRecv, d.selRecvPk, d.selRecvBy), nil)
				d.selAtTally = "\x00resync"
			}
		}
	}
}

func (s *vfSession) chaosC07(n int, budget map[*vfSide]int, pending *[]vfPendingSignal) {
	for i := 0; i < n && s.broken == ""; i++ {
		x := s.A
		if s.rng.IntN(2) == 0 {
			x = s.B
		}
		switch k := s.rng.IntN(20); {
		case k == 3 && !s.flooded && s.rng.IntN(40) == 0:
			s.flooded = true
			s.floodStep(x)
		case k == 3:
			s.writeToPairStep(x, s.rng.IntN(8) == 0)
		case k <= 2:
			s.writeStep(x, s.rng.IntN(8) == 0)
		case k == 4:
			s.injectData(x, false, s.rng.IntN(6) == 0)
		case k == 5:
			s.injectData(x, true, s.rng.IntN(3) == 0)
		case k <= 11:
			// prefer delivering data in flight through the data-aware path
			ids := s.sw.inflightIDs()
			if len(ids) > 0 {
				id := ids[s.rng.IntN(len(ids))]
				if s.rng.IntN(8) == 0 {
					s.deliverDataDup(id)
				} else {
					s.deliverData(id)
				}
			}
		default:
			s.chaosNoDeliver(budget, pending)
		}
	}
}

func (s *vfSession) deliverDataDup(id int) { s.deliver(id, true) }

// chaosNoDeliver: one scheduler action that is not a delivery (ticks, drops, trickle).
func (s *vfSession) chaosNoDeliver(budget map[*vfSide]int, pending *[]vfPendingSignal) {
	ids := s.sw.inflightIDs()
	switch k := s.rng.IntN(6); {
	case k == 0 && budget[s.A] > 0:
		budget[s.A]--
		s.tickSide(s.A)
	case k == 1 && budget[s.B] > 0:
		budget[s.B]--
		s.tickSide(s.B)
	case k == 2 && len(*pending) > 0:
		p := (*pending)[0]
		*pending = (*pending)[1:]
		s.addRemoteStep(p.to, p.cand, p.desc)
	case k == 3 && len(ids) > 0:
		s.drop(ids[s.rng.IntN(len(ids))])
	}
}

func (s *vfSession) drainInflightData() {
	for i := 0; i < 3000 && s.broken == ""; i++ {
		ids := s.sw.inflightIDs()
		if len(ids) == 0 {
			return
		}
		s.deliverData(ids[s.rng.IntN(len(ids))])
	}
}

func vfC07Run(e *vfEnv, r *vfResult, idx int) {
	s := newVfSession(e, r, idx, "c07")
	s.mon.c07 = true
	defer s.closeAll()
	t := vfGenTopo(s)
	if s.rng.IntN(2) == 0 {
		t.Unreach = nil
	}
	withRestart := s.rng.IntN(4) == 0
	s.desc["topology"], s.desc["restart"] = t, withRestart
	if err := s.setupPair(t, vfSideCfg{MaxBinding: 1000, TieBreaker: 31}, vfSideCfg{MaxBinding: 1000, TieBreaker: 32}, true, false); err != nil {
		r.inconclusive(1)

		return
	}
	pending, err := s.signalList(t)
	if err != nil {
		r.inconclusive(1)

		return
	}
	// each side is also told a TCP passive candidate of the peer on an address that is no UDP candidate
	for i, x := range s.sides() {
		ap := netip.MustParseAddrPort(fmt.Sprintf("10.%d.200.1:9000", 50+i))
		if tc, err := NewCandidateHost(&CandidateHostConfig{Network: "tcp", Address: ap.Addr().String(), Port: int(ap.Port()), Component: 1, TCPType: TCPTypePassive}); err == nil {
			x.otherTransportAddr = ap
			s.addRemoteStep(x, tc, fmt.Sprintf("%s told TCP passive candidate %s", x.name, ap))
		}
	}
	budget := map[*vfSide]int{s.A: 40, s.B: 40}
	s.chaosC07(40+s.rng.IntN(200), budget, &pending)
	for _, p := range pending {
		s.addRemoteStep(p.to, p.cand, p.desc)
	}
	pending = nil
	for rd := 0; rd < 4 && s.broken == ""; rd++ {
		s.tickSide(s.A)
		s.tickSide(s.B)
		s.drainInflightData()
	}
	s.chaosC07(30+s.rng.IntN(100), budget, &pending)
	if withRestart && s.broken == "" {
		np, err := s.coordinatedRestart(t, s.rng.IntN(6))
		if err == nil {
			for _, x := range s.sides() {
				s.data(x).selAtTally = "\x00restart"
			}
			pending = np
			s.chaosC07(40+s.rng.IntN(120), map[*vfSide]int{s.A: 30, s.B: 30}, &pending)
			for _, p := range pending {
				s.addRemoteStep(p.to, p.cand, p.desc)
			}
			for rd := 0; rd < 3 && s.broken == ""; rd++ {
				s.tickSide(s.A)
				s.tickSide(s.B)
				s.drainInflightData()
			}
			s.chaosC07(20+s.rng.IntN(60), map[*vfSide]int{s.A: 10, s.B: 10}, &pending)
		}
	}
	s.drainInflightData()
	r.eval(1)
	r.count("steps", int64(s.stepN))
	if s.broken != "" {
		r.inconclusive(1)
		r.note("run %d lost quiescence: %s", idx, s.broken)

		return
	}
	da, db := s.data(s.A), s.data(s.B)
	r.distinct(fmt.Sprintf("c07/a=%d/b=%d/nat=%d/cuts=%d/restart=%v/reads=%d", len(t.AIPs), len(t.BIPs), len(t.NAT), len(t.Unreach), withRestart, (da.read+db.read)/10))
	if idx < 3 {
		r.sample(map[string]any{"idx": idx, "topology": t, "steps": s.stepN, "bytes_written_A": da.bytesSent, "bytes_read_B": db.bytesRecv, "bytes_written_B": db.bytesSent, "bytes_read_A": da.bytesRecv, "payloads_read": da.read + db.read})
	}
}

func TestVerifC07(t *testing.T) {
	vfRun(t, "C07", func(e *vfEnv, r *vfResult) {
		n := e.n(1600, 100000)
		for i := 0; i < n; i++ {
			if e.only >= 0 && i != e.only {
				continue
			}
			vfC07Run(e, r, i)
		}
	})
}
