//go:build verif

package ice

// C13: users of a shared mux cannot disturb each other.
// (1) Reference counting of the handles handed out by the UDP and TCP muxes (fake underlying
//     connection that counts Close, and the real muxes), random concurrent read/write/close/
//     double-close histories under the race detector.
// (2) The write-abort protocol of UDPMuxDefault: a shared socket whose WriteTo blocks until a
//     write deadline <= now is set (or whose SetWriteDeadline fails), writers (plain and
//     context-cancellable), aborters, seeded pauses at the four H2 windows of the state
//     machine; at quiescence the state word is 0, the last deadline set is the zero time and
//     a probe write by an uninvolved handle succeeds without blocking.

import (
	"context"
	"errors"
	"fmt"
	"io"
	"math/rand/v2"
	"net"
	"net/netip"
	"sync"
	"sync/atomic"
	"testing"
	"time"
)

// vfFakeUnder is a muxedPacketConn that counts Close and delivers what the harness pushes.
type vfFakeUnder struct {
	closes atomic.Int32
	closed chan struct{}
	once   sync.Once
	in     chan []byte
	writes atomic.Int32
}

func (u *vfFakeUnder) ReadFrom(b []byte) (int, net.Addr, error) {
	return u.readFromContext(context.Background(), b)
}

func (u *vfFakeUnder) readFromContext(ctx context.Context, b []byte) (int, net.Addr, error) {
	select {
	case p := <-u.in:
		return copy(b, p), &net.UDPAddr{IP: net.IPv4(1, 1, 1, 1), Port: 1}, nil
	case <-u.closed:
		return 0, nil, io.EOF
	case <-ctx.Done():
		return 0, nil, ctx.Err()
	}
}

func (u *vfFakeUnder) WriteTo(b []byte, _ net.Addr) (int, error) {
	select {
	case <-u.closed:
		return 0, io.ErrClosedPipe
	default:
	}
	u.writes.Add(1)

	return len(b), nil
}

func (u *vfFakeUnder) Close() error {
	u.closes.Add(1)
	u.once.Do(func() { close(u.closed) })

	return nil
}
func (u *vfFakeUnder) LocalAddr() net.Addr              { return &net.UDPAddr{IP: net.IPv4(10, 0, 0, 9), Port: 7} }
func (u *vfFakeUnder) SetDeadline(time.Time) error      { return nil }
func (u *vfFakeUnder) SetReadDeadline(time.Time) error  { return nil }
func (u *vfFakeUnder) SetWriteDeadline(time.Time) error { return nil }

func vfC13Refcount(e *vfEnv, r *vfResult, idx int) { //nolint:cyclop
	rng := e.rng(idx, "refcount")
	under := &vfFakeUnder{closed: make(chan struct{}), in: make(chan []byte)}
	var refs atomic.Int32
	n := 1 + rng.IntN(5)
	handles := make([]*sharedPacketConn, n)
	for i := range handles {
		handles[i] = newSharedPacketConn(under, &refs)
	}
	if rng.IntN(2) == 0 {
		vfSetYield(newVfYieldPolicy(rand.New(rand.NewPCG(e.seed+uint64(idx), 31)), map[string]int{"shared.Close.afterCancel": 600, "*": 0}, 80)) //nolint:gosec
		defer vfSetYield(nil)
	}
	// every handle gets a reader goroutine blocked in ReadFrom, and is closed (possibly twice, possibly concurrently) at a random instant
	type hres struct {
		readErr  error
		closedAt atomic.Int64
	}
	res := make([]*hres, n)
	var wg sync.WaitGroup
	var seq atomic.Int64
	var closesSeenEarly atomic.Int32
	for i := range handles {
		res[i] = &hres{}
		wg.Add(1)
		go func(i int) {
			defer wg.Done()
			buf := make([]byte, 100)
			for {
				_, _, err := handles[i].ReadFrom(buf)
				if err != nil {
					res[i].readErr = err

					return
				}
			}
		}(i)
	}
	order := rng.Perm(n)
	var cwg sync.WaitGroup
	for k, i := range order {
		doubles := 1 + rng.IntN(2)
		delay := time.Duration(k*rng.IntN(60)) * time.Microsecond
		for dd := 0; dd < doubles; dd++ {
			cwg.Add(1)
			go func(i int) {
				defer cwg.Done()
				time.Sleep(delay)
				// before this handle goes away, siblings that are still open must be fully usable
				_ = handles[i].Close()
				res[i].closedAt.CompareAndSwap(0, seq.Add(1))
				if under.closes.Load() > 0 && refs.Load() > 0 {
					closesSeenEarly.Add(1)
				}
			}(i)
		}
		if k == n/2 {
			// mid-way: a sibling that is still open writes and receives
			last := order[n-1]
			if _, err := handles[last].WriteTo([]byte("x"), &net.UDPAddr{IP: net.IPv4(2, 2, 2, 2), Port: 2}); err != nil && res[last].closedAt.Load() == 0 && n > 1 && k < n-1 {
				select {
				case <-under.closed:
				default:
					r.violation("sibling-write-failed", fmt.Sprintf("history %d: write on an open sibling handle failed with %v while other handles were being closed", idx, err), map[string]any{"idx": idx, "handles": n})
				}
			}
		}
	}
	done := make(chan struct{})
	go func() { cwg.Wait(); wg.Wait(); close(done) }()
	select {
	case <-done:
	case <-time.After(20 * time.Second):
		r.violation("refcount-stuck", fmt.Sprintf("history %d: readers of closed handles did not return", idx), map[string]any{"idx": idx, "stacks": vfStacks()})

		return
	}
	r.eval(1)
	wit := map[string]any{"idx": idx, "handles": n, "underlying_closes": under.closes.Load(), "refs": refs.Load()}
	if under.closes.Load() != 1 {
		sig := "underlying-closed-twice"
		if under.closes.Load() == 0 {
			sig = "underlying-not-closed"
		}
		r.violation(sig, fmt.Sprintf("history %d: %d handles, all closed; the underlying connection was closed %d time(s)", idx, n, under.closes.Load()), wit)
	}
	if closesSeenEarly.Load() > 0 {
		r.violation("underlying-closed-while-handles-open", fmt.Sprintf("history %d: the underlying connection was closed while the reference count was still positive", idx), wit)
	}
	for i, x := range res {
		if x.readErr == nil || (!errors.Is(x.readErr, io.ErrClosedPipe) && !errors.Is(x.readErr, io.EOF)) {
			r.violation("closed-handle-read-error", fmt.Sprintf("history %d: pending read of closed handle %d returned %v", idx, i, x.readErr), wit)
		}
	}
	for i := range handles {
		if _, err := handles[i].WriteTo([]byte("late"), &net.UDPAddr{IP: net.IPv4(2, 2, 2, 2), Port: 2}); err == nil {
			r.violation("closed-handle-write-succeeds", fmt.Sprintf("history %d: write on closed handle %d succeeded", idx, i), wit)
		}
	}
	r.distinct(fmt.Sprintf("refcount/n%d/first%d", n, order[0]))
}

// vfC13RefcountSequential: exact, single goroutine: after closing k of n handles the underlying is open iff k < n, siblings read and write.
var vfC13PendingStuck, vfC13SiblingStuck atomic.Int32

func vfC13RefcountSequential(e *vfEnv, r *vfResult, idx int) {
	rng := e.rng(idx, "refseq")
	sock := newVfMuxSock("10.0.0.9:7000")
	mux := NewUDPMuxDefault(UDPMuxParams{UDPConn: sock, Logger: vfQuietLogger().NewLogger("ice")})
	defer mux.Close() //nolint:errcheck
	n := 2 + rng.IntN(4)
	var hs []net.PacketConn
	for i := 0; i < n; i++ {
		pc, err := mux.GetConn("uR", sock.local)
		if err != nil {
			r.inconclusive(1)

			return
		}
		hs = append(hs, pc)
	}
	var real *udpMuxedConn
	if sp, ok := hs[0].(*sharedPacketConn); ok {
		real = sp.underlying.(*udpMuxedConn) //nolint:forcetypeassert
	}
	if real == nil {
		r.inconclusive(1)

		return
	}
	order := rng.Perm(n)
	peer := &net.UDPAddr{IP: net.IPv4(1, 2, 3, 4), Port: 5000}
	open := map[int]bool{}
	for i := range hs {
		open[i] = true
	}
	// the handle closed first has a read pending, with or without a (far) read deadline armed:
	// its own Close must fail that read promptly although siblings keep the connection open
	first := order[0]
	withDeadline := rng.IntN(2) == 0
	if withDeadline {
		_ = hs[first].SetReadDeadline(time.Now().Add(time.Hour))
	}
	pending := make(chan error, 1)
	probe := vfC13PendingStuck.Load() < 2 // a tree that breaks this costs 10 s per history: two witnesses are enough
	if probe {
		go func() { _, _, err := hs[first].ReadFrom(make([]byte, 100)); pending <- err }()
		time.Sleep(100 * time.Microsecond)
	}
	for k, i := range order {
		_ = hs[i].Close()
		if k == 0 && n > 1 && probe {
			select {
			case err := <-pending:
				if err == nil {
					r.violation("closed-handle-read-error:udpmux", "the pending read of a closed handle returned data", map[string]any{"idx": idx})
				}
			case <-time.After(10 * time.Second):
				vfC13PendingStuck.Add(1)
				r.violation("closed-handle-read-still-pending", fmt.Sprintf("history %d: 10 s after Close of a handle its own pending read (read deadline armed: %v) is still blocked while %d sibling(s) are open", idx, withDeadline, n-1), map[string]any{"idx": idx, "handles": n, "read_deadline_armed": withDeadline})
				for _, h := range hs {
					_ = h.Close()
				}

				return
			}
		}
		if rng.IntN(3) == 0 {
			_ = hs[i].Close() // double close of one handle must not release a second reference
		}
		delete(open, i)
		r.eval(1)
		wit := map[string]any{"idx": idx, "handles": n, "closed_so_far": k + 1}
		if real.isClosed() != (len(open) == 0) {
			sig := "underlying-closed-while-handles-open"
			if len(open) == 0 {
				sig = "underlying-not-closed"
			}
			r.violation(sig+":udpmux", fmt.Sprintf("history %d: %d of %d handles closed; underlying closed=%v", idx, k+1, n, real.isClosed()), wit)

			return
		}
		if _, _, err := hs[i].ReadFrom(make([]byte, 10)); err == nil {
			r.violation("closed-handle-read-error:udpmux", "read on a closed handle returned data", wit)
		}
		for j := range open {
			if _, err := hs[j].WriteTo([]byte("sib"), peer); err != nil {
				r.violation("sibling-write-failed:udpmux", fmt.Sprintf("history %d: after closing handle %d, write on open sibling %d failed: %v", idx, i, j, err), wit)
			}
			// a datagram from the peer still reaches the open sibling
			data := []byte(fmt.Sprintf("\x90to-sibling-%d-%d", idx, k))
			_ = hs[j].SetReadDeadline(time.Now().Add(5 * time.Second))
			buf := make([]byte, 100)
			var nr int
			var err error
			if rng.IntN(2) == 0 && vfC13SiblingStuck.Load() < 2 {
				// the sibling's read is already parked when the datagram arrives: it has to be woken
				type rres struct {
					n   int
					err error
				}
				ch := make(chan rres, 1)
				go func() { n, _, e := hs[j].ReadFrom(buf); ch <- rres{n, e} }()
				time.Sleep(200 * time.Microsecond)
				if !sock.feed(data, peer) {
					r.inconclusive(1)

					return
				}
				x := <-ch
				nr, err = x.n, x.err
				if err != nil {
					vfC13SiblingStuck.Add(1) // a tree that breaks this costs 5 s per history: two witnesses are enough
				}
				r.count("c13_sibling_reads_parked_before_arrival", 1)
			} else {
				if !sock.feed(data, peer) {
					r.inconclusive(1)

					return
				}
				nr, _, err = hs[j].ReadFrom(buf)
			}
			if err != nil || string(buf[:nr]) != string(data) {
				r.violation("sibling-read-failed:udpmux", fmt.Sprintf("history %d: after closing handle %d, open sibling %d read %q err=%v", idx, i, j, buf[:nr], err), wit)
			}

			break
		}
	}
	r.distinct(fmt.Sprintf("refseq/n%d/deadline=%v", n, withDeadline))
}

// vfC13Abort: the abort protocol under stress.
func vfC13Abort(e *vfEnv, r *vfResult, idx int) { //nolint:cyclop,maintidx
	rng := e.rng(idx, "abort")
	sock := newVfMuxSock("10.9.9.9:7000")
	mux := NewUDPMuxDefault(UDPMuxParams{UDPConn: sock, Logger: vfQuietLogger().NewLogger("ice")})
	handles := make([]net.PacketConn, 0, 3)
	for i := 0; i < 3; i++ {
		c, err := mux.GetConn([]string{"uA", "uB", "uC"}[i], sock.local)
		if err != nil {
			r.inconclusive(1)

			return
		}
		handles = append(handles, c)
	}
	yp := []int{0, 300, 700}[rng.IntN(3)]
	var pol *vfYieldPolicy
	if yp > 0 {
		pol = newVfYieldPolicy(rand.New(rand.NewPCG(e.seed+uint64(idx), 41)), map[string]int{ //nolint:gosec
			"udpmux.abort.afterBlocked": yp, "udpmux.abort.afterDeadline": yp, "udpmux.finish.lastWriter": yp, "udpmux.write.beforeWriteTo": yp / 2, "*": 0,
		}, 120)
		vfSetYield(pol)
		defer vfSetYield(nil)
	}
	peer := &net.UDPAddr{IP: net.IPv4(20, 0, 0, 1), Port: 5000}
	blocking := rng.IntN(4) != 0
	sock.setBlocking(blocking)
	failWDL := rng.IntN(6) == 0
	sock.setFailWDL(failWDL)
	var wg sync.WaitGroup
	nw, na := 1+rng.IntN(5), 1+rng.IntN(4)
	var okWrites, errWrites atomic.Int32
	for w := 0; w < nw; w++ {
		wg.Add(1)
		hd := handles[rng.IntN(3)]
		useCtx := rng.IntN(3) == 0
		delay := time.Duration(rng.IntN(300)) * time.Microsecond
		cdelay := time.Duration(rng.IntN(400)) * time.Microsecond
		go func() {
			defer wg.Done()
			time.Sleep(delay)
			var err error
			if useCtx {
				ctx, cancel := context.WithCancel(context.Background())
				go func() { time.Sleep(cdelay); cancel() }()
				_, err = mux.writeToContext(ctx, []byte("x"), peer)
				cancel()
			} else {
				_, err = hd.WriteTo([]byte("x"), peer)
			}
			if err == nil {
				okWrites.Add(1)
			} else {
				errWrites.Add(1)
			}
		}()
	}
	for a := 0; a < na; a++ {
		wg.Add(1)
		hd := handles[rng.IntN(3)]
		delay := time.Duration(rng.IntN(600)) * time.Microsecond
		go func() {
			defer wg.Done()
			time.Sleep(delay)
			if ab, ok := hd.(writeAborter); ok {
				_ = ab.abortWrite()
			}
		}()
	}
	// writers that no abort reached are released by making the socket writable again
	rel := time.Duration(200+rng.IntN(900)) * time.Microsecond
	go func() { time.Sleep(rel); sock.setFailWDL(false); sock.setBlocking(false) }()
	done := make(chan struct{})
	go func() { wg.Wait(); close(done) }()
	select {
	case <-done:
	case <-time.After(20 * time.Second):
		r.violation("abort-history-stuck", fmt.Sprintf("history %d: %d writers / %d aborters did not finish; write state %#x", idx, nw, na, mux.writeState.Load()),
			map[string]any{"idx": idx, "stacks": vfStacks()})
		_ = mux.Close()
		r.count("stuck_histories", 1) // the remaining histories of this process are skipped: spinning writers would starve them

		return
	}
	sock.setFailWDL(false)
	sock.setBlocking(false)
	// quiescence oracle
	st := mux.writeState.Load()
	sock.mu.Lock()
	log := append([]time.Time{}, sock.wdl...)
	sock.mu.Unlock()
	shape := ""
	for _, d := range log {
		if d.IsZero() {
			shape += "0"
		} else {
			shape += "D"
		}
	}
	r.eval(1)
	r.set("c13_deadline_log_shapes", shape)
	wit := map[string]any{"idx": idx, "writers": nw, "aborters": na, "socket_blocks": blocking, "set_write_deadline_fails": failWDL, "deadline_log": shape, "write_state": fmt.Sprintf("%#x", st), "yield_permille": yp}
	if st != 0 {
		r.violation("abort-state-not-cleared", fmt.Sprintf("history %d: all writes returned but the write-state word is %#x", idx, st), wit)
	}
	if len(log) > 0 && !log[len(log)-1].IsZero() {
		r.violation("abort-deadline-left-armed", fmt.Sprintf("history %d: all writes returned but the last write deadline set on the shared socket is non-zero (log %s)", idx, shape), wit)
	}
	probe := make(chan error, 1)
	go func() { _, err := handles[rng.IntN(3)].WriteTo([]byte("probe"), peer); probe <- err }()
	select {
	case perr := <-probe:
		if perr != nil {
			r.violation("abort-socket-unusable", fmt.Sprintf("history %d: a later write by an uninvolved handle failed: %v (deadline log %s)", idx, perr, shape), wit)
		}
	case <-time.After(10 * time.Second):
		r.violation("abort-socket-blocked", fmt.Sprintf("history %d: a later write by an uninvolved handle blocked (write state %#x)", idx, mux.writeState.Load()), wit)
	}
	_ = mux.Close()
	if pol != nil {
		r.count("c13_h2_pauses", pol.n.Load())
	}
	armed := 0
	for _, d := range log {
		if !d.IsZero() {
			armed++
		}
	}
	r.count("c13_histories_with_armed_deadline", int64(min(armed, 1)))
	r.distinct(fmt.Sprintf("abort/w%d/a%d/blk%v/fail%v/y%d/%s", nw, na, blocking, failWDL, yp, shape))
	if idx < 3 {
		r.sample(wit)
	}
}

// vfC13StaleAbort (directed schedule, hook H2): a context-cancelled write whose abort is delayed until the write
// has already returned must not interrupt a later write of another user.
func vfC13StaleAbort(e *vfEnv, r *vfResult, idx int) {
	sock := newVfMuxSock("10.9.9.9:7000")
	mux := NewUDPMuxDefault(UDPMuxParams{UDPConn: sock, Logger: vfQuietLogger().NewLogger("ice")})
	defer mux.Close() //nolint:errcheck
	hA, err1 := mux.GetConn("uA", sock.local)
	hB, err2 := mux.GetConn("uB", sock.local)
	if err1 != nil || err2 != nil {
		r.inconclusive(1)

		return
	}
	_ = hA
	release := make(chan struct{})
	parked := &atomic.Int32{}
	pol := newVfYieldPolicy(e.rng(idx, "stale"), map[string]int{"*": 0}, 1)
	pol.park = map[string]chan struct{}{"udpmux.ctxAbort.beforeAbort": release}
	pol.parked = map[string]*atomic.Int32{"udpmux.ctxAbort.beforeAbort": parked}
	vfSetYield(pol)
	defer vfSetYield(nil)
	peer := &net.UDPAddr{IP: net.IPv4(20, 0, 0, 1), Port: 5000}
	sock.setBlocking(true)
	ctx, cancel := context.WithCancel(context.Background())
	wDone := make(chan error, 1)
	go func() { _, err := mux.writeToContext(ctx, []byte("w"), peer); wDone <- err }()
	for dl := time.Now().Add(2 * time.Second); sock.blockedW.Load() == 0 && time.Now().Before(dl); time.Sleep(20 * time.Microsecond) {
	}
	cancel() // the abort goroutine passes its "still in flight" check and parks at the hook
	for dl := time.Now().Add(2 * time.Second); parked.Load() == 0 && time.Now().Before(dl); time.Sleep(20 * time.Microsecond) {
	}
	if parked.Load() == 0 {
		close(release)
		sock.setBlocking(false)
		<-wDone
		r.inconclusive(1)
		r.note("stale-abort schedule: hook udpmux.ctxAbort.beforeAbort not reached")

		return
	}
	sock.setBlocking(false) // the first user's socket write completes by itself
	released := false
	select {
	case <-wDone:
	case <-time.After(20 * time.Millisecond):
		// the write does not return while its abort is pending (an implementation may make the two atomic): let the abort run
		close(release)
		released = true
		select {
		case <-wDone:
		case <-time.After(5 * time.Second):
			r.inconclusive(1)

			return
		}
	}
	// a later write of ANOTHER user is in flight when the delayed abort finally runs
	sock.setBlocking(true)
	pDone := make(chan error, 1)
	go func() { _, err := hB.WriteTo([]byte("later"), peer); pDone <- err }()
	for dl := time.Now().Add(2 * time.Second); sock.blockedW.Load() == 0 && time.Now().Before(dl); time.Sleep(20 * time.Microsecond) {
	}
	if !released {
		close(release)
	}
	time.Sleep(300 * time.Microsecond)
	sock.setBlocking(false)
	r.eval(1)
	r.distinct(fmt.Sprintf("stale-abort/write-waits-for-abort=%v", released))
	select {
	case err := <-pDone:
		if err != nil {
			r.violation("abort-of-finished-write-hits-later-writer", fmt.Sprintf("user B's write, started after user A's cancelled write had already returned, failed with %v: A's delayed abort armed the shared write deadline", err),
				map[string]any{"idx": idx, "deadline_log_len": len(sock.wdl)})
		}
	case <-time.After(10 * time.Second):
		r.violation("abort-socket-blocked", "the later write blocked", map[string]any{"idx": idx})
	}
}

// vfC13TCPMux: handles of one ufrag of the TCP mux share one tcpPacketConn, closed with the last handle.
// vfC13AbortOwnWrite: what candidateBase.abortIO does to a handle whose write is blocked in the shared socket -
// abortWrite, then Close - must make that write return, through both I/O flavours of the handle (net.Addr and
// netip.AddrPort); afterwards the socket is usable for a sibling and its write deadline is cleared.
func vfC13AbortOwnWrite(e *vfEnv, r *vfResult, idx int) {
	rng := e.rng(idx, "abortown")
	sock := newVfMuxSock("10.9.8.8:7000")
	var under net.PacketConn = sock
	addrPort := rng.IntN(2) == 0
	if addrPort {
		under = vfMuxSockAP{sock}
	}
	mux := NewUDPMuxDefault(UDPMuxParams{UDPConn: under, Logger: vfQuietLogger().NewLogger("ice")})
	defer mux.Close() //nolint:errcheck
	h, err1 := mux.GetConn("uA", sock.local)
	sib, err2 := mux.GetConn("uB", sock.local)
	if err1 != nil || err2 != nil {
		r.inconclusive(1)

		return
	}
	peer := netip.MustParseAddrPort("20.0.0.1:5000")
	sock.setBlocking(true)
	res := make(chan error, 1)
	viaAddrPort := false
	go func() {
		if ap, ok := h.(AddrPortReaderWriter); ok && addrPort {
			viaAddrPort = true
			_, err := ap.WriteToAddrPort([]byte("x"), peer)
			res <- err

			return
		}
		_, err := h.WriteTo([]byte("x"), net.UDPAddrFromAddrPort(peer))
		res <- err
	}()
	for dl := time.Now().Add(3 * time.Second); sock.blockedW.Load() == 0 && time.Now().Before(dl); time.Sleep(10 * time.Microsecond) {
	}
	if sock.blockedW.Load() == 0 {
		sock.setBlocking(false)
		<-res
		r.inconclusive(1)

		return
	}
	if ab, ok := h.(writeAborter); ok {
		_ = ab.abortWrite()
	}
	_ = h.Close()
	r.eval(1)
	wit := map[string]any{"idx": idx, "addrport_socket": addrPort, "write_via_addrport": viaAddrPort}
	select {
	case err := <-res:
		if err == nil {
			r.violation("aborted-write-succeeded", "a write blocked in the shared socket returned nil after abortWrite + Close of its handle while the socket was still blocked", wit)
		}
	case <-time.After(5 * time.Second):
		r.violation("aborted-write-still-blocked", fmt.Sprintf("history %d: abortWrite + Close of the handle did not make its own blocked write return (AddrPort socket: %v)", idx, addrPort), wit)
		sock.setBlocking(false)
		<-res

		return
	}
	sock.setBlocking(false)
	if _, err := sib.WriteTo([]byte("y"), net.UDPAddrFromAddrPort(peer)); err != nil {
		r.violation("abort-socket-unusable", fmt.Sprintf("history %d: after the abort a sibling's write failed: %v", idx, err), wit)
	}
	sock.mu.Lock()
	log := append([]time.Time{}, sock.wdl...)
	sock.mu.Unlock()
	if len(log) > 0 && !log[len(log)-1].IsZero() {
		r.violation("abort-deadline-left-armed", fmt.Sprintf("history %d: the last write deadline set on the shared socket is non-zero after all writes returned", idx), wit)
	}
	_ = sib.Close()
	r.distinct(fmt.Sprintf("abortown/ap=%v", addrPort))
}

func vfC13TCPMux(e *vfEnv, r *vfResult, idx int) {
	rng := e.rng(idx, "tcprefs")
	ln, err := net.Listen("tcp", "127.0.0.1:0")
	if err != nil {
		r.inconclusive(1)

		return
	}
	mux := NewTCPMuxDefault(TCPMuxParams{Listener: ln, Logger: vfQuietLogger().NewLogger("ice"), ReadBufferSize: 8})
	defer mux.Close() //nolint:errcheck
	n := 2 + rng.IntN(3)
	var hs []net.PacketConn
	for i := 0; i < n; i++ {
		pc, err := mux.GetConnByUfrag("uT", false, net.IPv4(127, 0, 0, 1))
		if err != nil {
			r.inconclusive(1)

			return
		}
		hs = append(hs, pc)
	}
	sp, _ := hs[0].(*sharedPacketConn)
	if sp == nil {
		r.inconclusive(1)

		return
	}
	real := sp.underlying.(*tcpPacketConn) //nolint:forcetypeassert
	order := rng.Perm(n)
	// a TCP client attached to this ufrag: siblings of a closed handle must keep receiving from it and writing to it
	user := "uT:remote"
	cl, cerr := net.DialTimeout("tcp", ln.Addr().String(), 2*time.Second)
	if cerr == nil {
		defer cl.Close() //nolint:errcheck
		_, _ = cl.Write(vfFrame(vfStunWithUser(rng, &user)))
	}
	// the handle closed first has a read pending (with or without a far read deadline armed)
	first := order[0]
	withDeadline := rng.IntN(2) == 0
	probe := cerr == nil && vfC13PendingStuck.Load() < 2
	pending := make(chan error, 1)
	if probe {
		// drain the client's first message through the handle that stays open longest, so that the pending read really waits
		last := hs[order[n-1]]
		_ = last.SetReadDeadline(time.Now().Add(3 * time.Second))
		_, _, _ = last.ReadFrom(make([]byte, 1500))
		_ = last.SetReadDeadline(time.Time{})
		if withDeadline {
			_ = hs[first].SetReadDeadline(time.Now().Add(time.Hour))
		}
		go func() { _, _, err := hs[first].ReadFrom(make([]byte, 1500)); pending <- err }()
		time.Sleep(100 * time.Microsecond)
	}
	candidateStyle := rng.IntN(2) == 0
	for k, i := range order {
		if candidateStyle {
			// the way a candidate lets go of its connection: a deadline in the past (to unblock its own I/O), then Close
			_ = hs[i].SetDeadline(time.Now())
			r.count("c13_tcpmux_handles_closed_after_setdeadline_now", 1)
		}
		_ = hs[i].Close()
		if k == 0 && probe {
			select {
			case err := <-pending:
				if err == nil {
					r.violation("closed-handle-read-error:tcpmux", "the pending read of a closed TCP-mux handle returned data", map[string]any{"idx": idx})
				}
			case <-time.After(10 * time.Second):
				vfC13PendingStuck.Add(1)
				r.violation("closed-handle-read-still-pending:tcpmux", fmt.Sprintf("history %d: 10 s after Close of a TCP-mux handle its own pending read (read deadline armed: %v) is still blocked while %d sibling(s) are open", idx, withDeadline, n-1), map[string]any{"idx": idx, "handles": n})
				for _, h := range hs {
					_ = h.Close()
				}

				return
			}
			// a sibling still receives from the client and can answer it
			if n > 1 {
				sib := hs[order[n-1]]
				_, _ = cl.Write(vfFrame([]byte("\x90to-sibling")))
				_ = sib.SetReadDeadline(time.Now().Add(5 * time.Second))
				buf := make([]byte, 1500)
				m, from, rerr := sib.ReadFrom(buf)
				if rerr != nil || string(buf[:m]) != "\x90to-sibling" {
					r.violation("sibling-unusable-after-handle-close:tcpmux", fmt.Sprintf("history %d: after one of %d handles was closed a sibling's read gave n=%d err=%v", idx, n, m, rerr), map[string]any{"idx": idx})
				} else if _, werr := func() (int, error) {
					if candidateStyle {
						// write deadlines of a shared connection are whatever the last caller set (the closed handle left
						// one in the past): a user that wants to write arms its own
						_ = sib.SetWriteDeadline(time.Time{})
					}

					return sib.WriteTo([]byte("\x90back"), from)
				}(); werr != nil {
					r.violation("sibling-unusable-after-handle-close:tcpmux", fmt.Sprintf("history %d: after one of %d handles was closed a sibling's write failed: %v", idx, n, werr), map[string]any{"idx": idx})
				}
				_ = sib.SetReadDeadline(time.Time{})
			}
		}
		r.eval(1)
		if real.isClosed() != (k == n-1) {
			r.violation("underlying-closed-while-handles-open:tcpmux", fmt.Sprintf("history %d: %d of %d TCP-mux handles closed; underlying closed=%v", idx, k+1, n, real.isClosed()), map[string]any{"idx": idx})

			return
		}
	}
	r.distinct(fmt.Sprintf("tcprefs/n%d/probe=%v/deadline=%v", n, probe, withDeadline))
}

func TestVerifC13(t *testing.T) {
	vfRun(t, "C13", func(e *vfEnv, r *vfResult) {
		n := e.n(4000, 200000)
		for i := 0; i < n; i++ {
			vfC13Refcount(e, r, i)
		}
		n2 := e.n(3000, 150000)
		for i := 0; i < n2; i++ {
			vfC13RefcountSequential(e, r, i)
		}
		m := e.n(3000, 150000)
		for i := 0; i < m; i++ {
			vfC13Abort(e, r, i)
			r.mu.Lock()
			stuck := r.Counters["stuck_histories"]
			r.mu.Unlock()
			if stuck >= 2 {
				break
			}
		}
		k := e.n(300, 10000)
		for i := 0; i < k; i++ {
			vfC13TCPMux(e, r, i)
		}
		for i := 0; i < e.n(40, 2000); i++ {
			vfC13StaleAbort(e, r, i)
		}
		for i := 0; i < e.n(200, 8000); i++ {
			vfC13AbortOwnWrite(e, r, i)
		}
	})
}
