//go:build verif

package ice

// C20: renomination, the latest nomination wins on both sides.
// (a) controlled agent vs scripted peer issuing explicit nomination values on pairs in every
//     validity state, delivery order permuted; reference: strict running maximum.
// (b) two agents, the controlling one renominates through the public API; after quiescence
//     both must sit on the mirror image of the pair that carried the highest issued value.
// (c) error clauses (controlled agent / feature off) and the value on the wire.

import (
	"errors"
	"fmt"
	"net/netip"
	"strings"
	"testing"
	"time"
)

func vfC20Peer(e *vfEnv, r *vfResult, idx int) { //nolint:cyclop
	s := newVfSession(e, r, idx, "c20peer")
	defer s.closeAll()
	rng := s.rng
	nA, nP := 1+rng.IntN(2), 1+rng.IntN(3)
	if nA*nP < 2 {
		nP = 2
	}
	// one run in three: the peer's addresses are not signalled up front; the agent learns them as peer-reflexive from the
	// peer's checks / nominations and is told the signalled candidates in the middle of the exchange (supersession)
	tellFirst := rng.IntN(3) != 0
	if err := s.setupAgentVsPeer(vfSideCfg{MaxBinding: 1000, Renomination: true, TieBreaker: 77}, false, nA, nP, tellFirst); err != nil {
		r.inconclusive(1)

		return
	}
	p := s.P
	var untold []*vfConn
	if !tellFirst {
		untold = append(untold, p.socks...)
	}
	tellOne := func() {
		if len(untold) == 0 {
			return
		}
		c := untold[0]
		untold = untold[1:]
		prio := uint32(2130706431 - rng.IntN(4000))
		if rng.IntN(3) == 0 {
			prio = uint32(1694498815 + rng.IntN(1000)) // far below a peer-reflexive / host priority
		}
		if rc, err := NewCandidateHost(&CandidateHostConfig{Network: "udp", Address: c.local.Addr().String(), Port: int(c.local.Port()), Component: 1, Priority: prio}); err == nil {
			s.step("addremote", "A", 0, "A told (late) "+vfCandAddr(rc))
			s.A.addRemote(rc)
			s.afterStep()
			r.count("c20_late_signalled_candidates", 1)
		}
	}
	aSocks := s.aSockets()
	type pairKey struct{ sock, dst netip.AddrPort }
	var pairs []pairKey
	for _, c := range p.socks {
		for _, a := range aSocks {
			pairs = append(pairs, pairKey{c.local, a})
		}
	}
	// which pairs the peer lets the agent validate (by answering its checks): decided per pair, may change later
	answer := map[pairKey]bool{}
	for _, pk := range pairs {
		answer[pk] = rng.IntN(3) != 0
	}
	held := map[pairKey][]*vfDgram{}
	process := func() {
		for _, d := range p.take() {
			if d.Stun == nil || d.Stun.Class != "request" {
				continue
			}
			pk := pairKey{d.Dst, d.SrcPriv}
			if answer[pk] {
				if sock := p.sockFor(d.Dst); sock != nil {
					p.respond(d, sock, d.Src, p.pwd)
				}
			} else {
				held[pk] = append(held[pk], d)
			}
		}
	}
	// warm-up: plain checks (no nomination) on every pair so that pairs exist in different states
	for _, pk := range pairs {
		if rng.IntN(4) == 0 {
			continue
		}
		m := p.build(s.A, vfReqOpts{Role: "controlling", Tie: p.tie})
		p.send(p.sockFor(pk.sock), pk.dst, m.Raw)
	}
	for k := 0; k < 4; k++ {
		s.deliverAll(true, 200)
		process()
	}
	// the nomination sequence
	type nom struct {
		val  uint32
		pk   pairKey
		dgID int
	}
	nNom := 1 + rng.IntN(6)
	var issued []nom
	next := uint32(1 + rng.IntN(5))
	for i := 0; i < nNom; i++ {
		v := next
		switch rng.IntN(8) {
		case 0:
			v = 1
		case 1:
			v = 1<<24 - 1
		case 2:
			if len(issued) > 0 {
				v = issued[rng.IntN(len(issued))].val // equal to an earlier one
			}
		case 3:
			if next > 2 {
				v = next - 2 // decreasing
			}
		default:
			next += uint32(1 + rng.IntN(3)) //nolint:gosec
			v = next
		}
		pk := pairs[rng.IntN(len(pairs))]
		val := v
		m := p.build(s.A, vfReqOpts{Role: "controlling", Tie: p.tie, UseCand: true, Nomination: &val})
		d := p.send(p.sockFor(pk.sock), pk.dst, m.Raw)
		issued = append(issued, nom{v, pk, d.ID})
		// the controlling side's initial nomination is a plain USE-CANDIDATE; copies of it (retransmissions, delayed
		// datagrams) may arrive at any time, also after valued nominations: they must not undo those
		if rng.IntN(3) == 0 {
			ppk := pairs[rng.IntN(len(pairs))]
			pm := p.build(s.A, vfReqOpts{Role: "controlling", Tie: p.tie, UseCand: true})
			p.send(p.sockFor(ppk.sock), ppk.dst, pm.Raw)
			r.count("c20_plain_use_candidate_interleaved", 1)
		}
	}
	s.desc["nominations"] = fmt.Sprint(issued)
	// deliver everything in random order (with duplicates), answering / withholding as decided; track the reference
	var accMax int64 = -1
	var accPair string
	pairStr := func(pk pairKey) string { return "udp/" + pk.dst.String() + "|udp/" + pk.sock.String() }
	deliveredNom := map[int]bool{}
	for step := 0; step < 400 && s.broken == ""; step++ {
		ids := s.sw.inflightIDs()
		if len(ids) == 0 {
			process()
			ids = s.sw.inflightIDs()
			if len(ids) == 0 {
				break
			}
		}
		id := ids[rng.IntN(len(ids))]
		dup := rng.IntN(10) == 0
		before := s.A.snapshot()
		// reference update happens when a nomination reaches the agent
		for _, nm := range issued {
			if nm.dgID == id {
				if int64(nm.val) > accMax {
					accMax, accPair = int64(nm.val), pairStr(nm.pk)
				}
				deliveredNom[id] = true
			}
		}
		s.deliver(id, dup)
		process()
		after := s.A.snapshot()
		if before.Err != nil || after.Err != nil {
			break
		}
		if after.Selected != before.Selected {
			r.count("c20_selection_changes", 1)
			if accMax >= 0 && after.Selected != accPair { // (before any valued nomination the plain rules of C03 apply)
				s.viol("C20", "switched-to-non-latest-nomination", fmt.Sprintf("selection moved %q -> %q, but the highest accepted nomination value so far (%d) was carried by %s", before.Selected, after.Selected, accMax, accPair), nil)
			}
		}
		if after.LastNom != accMax {
			s.viol("C20", "accepted-value-not-running-max", fmt.Sprintf("the agent's highest accepted nomination value is %d, the strict running maximum of the delivered values is %d", after.LastNom, accMax), nil)
		}
		if rng.IntN(8) == 0 {
			tellOne()
		}
		if rng.IntN(12) == 0 { // the peer starts answering a pair it had been silent on
			pk := pairs[rng.IntN(len(pairs))]
			answer[pk] = true
			for _, d := range held[pk] {
				if sock := p.sockFor(d.Dst); sock != nil {
					p.respond(d, sock, d.Src, p.pwd)
				}
			}
			held[pk] = nil
		}
	}
	// quiesce: answer everything still held, a tick so that unanswered checks are retried, deliver all
	for len(untold) > 0 {
		tellOne()
	}
	for _, pk := range pairs {
		answer[pk] = true
		for _, d := range held[pk] {
			if sock := p.sockFor(d.Dst); sock != nil {
				p.respond(d, sock, d.Src, p.pwd)
			}
		}
		held[pk] = nil
	}
	for k := 0; k < 5 && s.broken == ""; k++ {
		s.deliverAll(true, 300)
		process()
	}
	r.eval(1)
	if s.broken != "" {
		r.inconclusive(1)
		r.note("run %d lost quiescence: %s", idx, s.broken)

		return
	}
	fin := s.A.snapshot()
	states := map[string]bool{}
	for _, ps := range fin.Pairs {
		states[ps.State.String()] = true
	}
	r.distinct(fmt.Sprintf("c20peer/nA=%d/nP=%d/noms=%d/max=%d/toldfirst=%v", nA, nP, nNom, accMax, tellFirst))
	if accMax >= 0 && len(deliveredNom) == len(issued) {
		targetValid := false
		for _, ps := range fin.Pairs {
			if ps.Local+"|"+ps.Remote == accPair && ps.State == CandidatePairStateSucceeded {
				targetValid = true
			}
		}
		if targetValid && fin.Selected != accPair {
			s.viol("C20", "final-selection-not-latest-nomination", fmt.Sprintf("after quiescence the pair of the highest nomination value %d (%s) is valid but the selected pair is %q", accMax, accPair, fin.Selected), nil)
		}
		if targetValid {
			r.count("c20_peer_final_checked", 1)
		}
	}
	if idx < 2 {
		r.sample(map[string]any{"idx": idx, "kind": "controlled agent vs scripted peer", "nominations": fmt.Sprint(issued), "final_selected": fin.Selected, "highest_accepted": accMax})
	}
}

func vfC20Agents(e *vfEnv, r *vfResult, idx int) { //nolint:cyclop
	s := newVfSession(e, r, idx, "c20agents")
	defer s.closeAll()
	rng := s.rng
	t := vfGenTopo(s)
	t.Unreach = nil
	t.clearNAT()
	for ip := range t.SignalA {
		t.SignalA[ip] = "host"
	}
	for ip := range t.SignalB {
		t.SignalB[ip] = "host"
	}
	if len(t.AIPs)*len(t.BIPs) < 2 {
		t.AIPs = append(t.AIPs, "10.0.9.1")
		t.SignalA["10.0.9.1"] = "host"
	}
	s.desc["topology"] = t
	// one session in three: both agents are configured with a custom attribute type for the nomination value
	var nomAttr uint16
	if rng.IntN(3) == 0 {
		nomAttr = []uint16{0xC0F1, 0x0030, 0xFF01}[rng.IntN(3)]
		vfNomAttr.Store(uint32(nomAttr))
		defer vfNomAttr.Store(0)
	}
	s.desc["nomination_attribute_type"] = fmt.Sprintf("%#x", nomAttr)
	if err := s.setupPair(t, vfSideCfg{MaxBinding: 1000, Renomination: true, TieBreaker: 41, NomAttr: nomAttr}, vfSideCfg{MaxBinding: 1000, Renomination: true, TieBreaker: 42, NomAttr: nomAttr}, true, false); err != nil {
		r.inconclusive(1)

		return
	}
	pending, _ := s.signalList(t)
	rounds := s.fairSuffix(&pending, 12, func() bool { ok, _ := s.bothConnectedMirror(); return ok && len(s.sw.inflightIDs()) == 0 })
	_ = rounds
	// let every pair validate on both sides
	for k := 0; k < 3; k++ {
		s.deliverAll(true, 500)
	}
	if ok, _ := s.bothConnectedMirror(); !ok || s.broken != "" {
		r.outOfScope(1)

		return
	}
	// renominations through the public API, on pairs that are valid on the controlling side
	nRe := 1 + rng.IntN(5)
	var lastIssuedPair string
	lossy := rng.IntN(2) == 0
	for i := 0; i < nRe && s.broken == ""; i++ {
		sa := s.A.snapshot()
		var valid []vfPairSnap
		for _, ps := range sa.Pairs {
			if ps.State == CandidatePairStateSucceeded {
				valid = append(valid, ps)
			}
		}
		if len(valid) == 0 {
			break
		}
		tp := valid[rng.IntN(len(valid))]
		var lc, rc Candidate
		locs, _ := s.A.a.GetLocalCandidates()
		rems, _ := s.A.a.GetRemoteCandidates()
		for _, c := range locs {
			if vfCandAddr(c) == tp.Local {
				lc = c
			}
		}
		for _, c := range rems {
			if vfCandAddr(c) == tp.Remote {
				rc = c
			}
		}
		if lc == nil || rc == nil {
			break
		}
		w0 := s.sw.wireLen()
		s.step("renominate", "A", 0, tp.Local+"|"+tp.Remote)
		// the simulation is quiescent here: nothing else runs concurrently with this API call
		if err := s.A.a.RenominateCandidate(lc, rc); err != nil {
			s.viol("C20", "renominate-error", fmt.Sprintf("RenominateCandidate on a valid pair of a controlling agent with the feature enabled failed: %v", err), nil)

			break
		}
		lastIssuedPair = tp.Local + "|" + tp.Remote
		var reqID int
		for _, d := range s.sw.wireFrom(w0) {
			if d.Emitter == "A" && d.Stun != nil && d.Stun.Class == "request" {
				reqID = d.ID
				if d.Stun.Nomination == nil || !d.Stun.UseCand || *d.Stun.Nomination != uint32(i+1) { //nolint:gosec
					s.viol("C20", "renominate-wire-value", fmt.Sprintf("renomination #%d left the agent as USE-CANDIDATE=%v nomination=%v (want value %d)", i+1, d.Stun.UseCand, d.Stun.Nomination, i+1), nil)
				}
			}
		}
		s.afterStep()
		// scheduler: deliver / drop / duplicate / delay before the next renomination is issued
		if lossy && rng.IntN(3) == 0 && reqID != 0 {
			s.drop(reqID) // lost nomination: re-issued by the harness (the agent does not retransmit it); a new value results
			nRe++
			if nRe > 12 {
				nRe = 12
			}
		}
		for k := rng.IntN(6); k > 0; k-- {
			ids := s.sw.inflightIDs()
			if len(ids) == 0 {
				break
			}
			s.deliver(ids[rng.IntN(len(ids))], rng.IntN(8) == 0)
		}
	}
	// quiesce: deliver everything, 4 fair rounds
	var none []vfPendingSignal
	s.fairSuffix(&none, 4, nil)
	r.eval(1)
	if s.broken != "" {
		r.inconclusive(1)
		r.note("run %d lost quiescence: %s", idx, s.broken)

		return
	}
	if time.Since(s.start) > 3*time.Second {
		r.outOfScope(1)

		return
	}
	r.distinct(fmt.Sprintf("c20agents/a=%d/b=%d/renoms=%d/lossy=%v/customattr=%v", len(t.AIPs), len(t.BIPs), nRe, lossy, nomAttr != 0))
	// the highest value the controlling agent issued whose request was not lost
	maxDelivered := uint32(0)
	var maxPair string
	for _, dl := range s.sw.deliveredCopy() {
		d := dl.Dgram
		if dl.To == "B" && d.Stun != nil && d.Stun.Nomination != nil && d.Stun.AuthBy == "B.g0" && *d.Stun.Nomination > maxDelivered {
			maxDelivered = *d.Stun.Nomination
			maxPair = "udp/" + d.SrcPriv.String() + "|udp/" + d.Dst.String()
		}
	}
	if maxDelivered == 0 {
		r.outOfScope(1)

		return
	}
	_ = lastIssuedPair
	sa, sb := s.A.snapshot(), s.B.snapshot()
	ok, why := s.bothConnectedMirror()
	if !ok {
		s.viol("C20", "renomination-diverged", fmt.Sprintf("after the renomination exchange quiesced the agents are not on mirror-image pairs: %s (highest delivered value %d on %s)", why, maxDelivered, maxPair), nil)

		return
	}
	if sa.Selected != maxPair {
		s.viol("C20", "renomination-not-highest-value", fmt.Sprintf("both agents sit on %s / %s, but the highest nomination value that reached the controlled agent (%d) was issued on %s", sa.Selected, sb.Selected, maxDelivered, maxPair), nil)
	}
	r.count("c20_agents_final_checked", 1)
	if idx < 2 {
		r.sample(map[string]any{"idx": idx, "kind": "two agents, RenominateCandidate", "renominations": nRe, "highest_delivered_value": maxDelivered, "pair": maxPair, "final_A": sa.Selected, "final_B": sb.Selected})
	}
}

// vfC20Auto: automatic renomination.  The controlling agent has the feature switched on and decides by itself, during
// its check rounds, when to renominate (round-trip times decide, so the decisions differ from run to run); the oracle
// does not care which pair it prefers: once the exchange has quiesced both agents must sit on the mirror image of the
// pair that carried the highest nomination value that reached the controlled agent, and on the controlled side the
// accepted value must be the running maximum at every step.
func vfC20Auto(e *vfEnv, r *vfResult, idx int) { //nolint:cyclop
	s := newVfSession(e, r, idx, "c20auto")
	defer s.closeAll()
	rng := s.rng
	t := vfGenTopo(s)
	t.Unreach = nil
	if len(t.AIPs)*len(t.BIPs) < 2 {
		t.AIPs = append(t.AIPs, "10.0.9.1")
		t.SignalA["10.0.9.1"] = "host"
	}
	s.desc["topology"] = t
	if err := s.setupPair(t, vfSideCfg{MaxBinding: 1000, Renomination: true, AutoRenom: true, TieBreaker: 41}, vfSideCfg{MaxBinding: 1000, Renomination: true, TieBreaker: 42}, true, false); err != nil {
		r.inconclusive(1)

		return
	}
	pending, _ := s.signalList(t)
	budget := map[*vfSide]int{s.A: 60, s.B: 60}
	lastNom := int64(-1)
	check := func() {
		sb := s.B.snapshot()
		if sb.Err != nil {
			return
		}
		if sb.LastNom < lastNom {
			s.viol("C20", "accepted-value-decreased", fmt.Sprintf("the controlled agent's highest accepted nomination value went from %d to %d", lastNom, sb.LastNom), nil)
		}
		lastNom = sb.LastNom
	}
	for k := 0; k < 6 && s.broken == ""; k++ {
		// reordering, duplication and arbitrary delay, but no loss: a renomination is sent once and is not retransmitted
		// (as in the API part, where the harness re-issues a lost one), so a lost request or response is not recoverable
		s.chaos(20+rng.IntN(60), budget, &pending, false)
		check()
	}
	s.fairSuffix(&pending, 10, nil)
	check()
	r.eval(1)
	if s.broken != "" {
		r.inconclusive(1)

		return
	}
	if time.Since(s.start) > 3*time.Second {
		r.outOfScope(1)

		return
	}
	maxDelivered := uint32(0)
	var maxPair string
	nVals := map[uint32]bool{}
	var nomLog []string
	for _, dl := range s.sw.deliveredCopy() {
		d := dl.Dgram
		if dl.To == "B" && d.Stun != nil && d.Stun.Class == "request" && d.Stun.UseCand && d.Stun.AuthBy == "B.g0" {
			v := "plain"
			if d.Stun.Nomination != nil {
				v = fmt.Sprint(*d.Stun.Nomination)
			}
			nomLog = append(nomLog, fmt.Sprintf("step %d: #%d %s -> %s value %s", dl.Step, d.ID, d.SrcPriv, d.Dst, v))
		}
		if dl.To == "B" && d.Stun != nil && d.Stun.Nomination != nil && d.Stun.AuthBy == "B.g0" {
			nVals[*d.Stun.Nomination] = true
			if *d.Stun.Nomination > maxDelivered {
				maxDelivered = *d.Stun.Nomination
				maxPair = "udp/" + d.SrcPriv.String() + "|udp/" + d.Dst.String()
			}
		}
	}
	r.distinct(fmt.Sprintf("c20auto/a=%d/b=%d/nat=%d/values=%d", len(t.AIPs), len(t.BIPs), len(t.NAT), len(nVals)))
	if maxDelivered == 0 {
		r.count("c20_auto_runs_without_renomination", 1)

		return
	}
	r.count("c20_auto_renomination_values_seen", int64(len(nVals)))
	ok, why := s.bothConnectedMirror()
	if !ok {
		s.viol("C20", "renomination-diverged", fmt.Sprintf("automatic renomination: after the exchange quiesced the agents are not on mirror-image pairs: %s (highest delivered value %d)", why, maxDelivered), map[string]any{"nominations_delivered_to_B": nomLog})

		return
	}
	sa := s.A.snapshot()
	if sa.Selected != maxPair {
		s.viol("C20", "renomination-not-highest-value", fmt.Sprintf("automatic renomination: both agents sit on %s, but the highest nomination value that reached the controlled agent (%d) was issued on %s", sa.Selected, maxDelivered, maxPair), nil)
	}
	r.count("c20_auto_final_checked", 1)
}

func vfC20Errors(e *vfEnv, r *vfResult, idx int) {
	s := newVfSession(e, r, idx, "c20errors")
	defer s.closeAll()
	t := &vfTopo{AIPs: []string{"10.0.0.1"}, BIPs: []string{"10.1.0.1"}, NAT: map[string]string{}, SignalA: map[string]string{"10.0.0.1": "host"}, SignalB: map[string]string{"10.1.0.1": "host"}}
	aRen := idx%2 == 0
	if err := s.setupPair(t, vfSideCfg{MaxBinding: 1000, Renomination: aRen, TieBreaker: 41}, vfSideCfg{MaxBinding: 1000, Renomination: true, TieBreaker: 42}, true, false); err != nil {
		r.inconclusive(1)

		return
	}
	pending, _ := s.signalList(t)
	s.fairSuffix(&pending, 8, func() bool { ok, _ := s.bothConnectedMirror(); return ok })
	if ok, _ := s.bothConnectedMirror(); !ok {
		r.outOfScope(1)

		return
	}
	for _, x := range s.sides() {
		locs, _ := x.a.GetLocalCandidates()
		rems, _ := x.a.GetRemoteCandidates()
		if len(locs) == 0 || len(rems) == 0 {
			continue
		}
		w0 := s.sw.wireLen()
		err := x.a.RenominateCandidate(locs[0], rems[0])
		emitted := 0
		for _, d := range s.sw.wireFrom(w0) {
			if d.Emitter == x.name {
				emitted++
			}
		}
		r.eval(1)
		r.distinct(fmt.Sprintf("c20err/%s/ren=%v", x.name, x.cfg.Renomination))
		switch {
		case !x.controlling:
			if !errors.Is(err, ErrOnlyControllingAgentCanRenominate) || emitted != 0 {
				s.viol("C20", "renominate-by-controlled", fmt.Sprintf("RenominateCandidate on the controlled agent: err=%v, %d datagram(s) emitted", err, emitted), nil)
			}
		case !x.cfg.Renomination:
			if !errors.Is(err, ErrRenominationNotEnabled) || emitted != 0 {
				s.viol("C20", "renominate-feature-off", fmt.Sprintf("RenominateCandidate with the feature off: err=%v, %d datagram(s) emitted", err, emitted), nil)
			}
		default:
			if err != nil || emitted != 1 {
				s.viol("C20", "renominate-error", fmt.Sprintf("RenominateCandidate on a controlling agent with the feature on: err=%v, %d datagram(s) emitted", err, emitted), nil)
			}
		}
	}
	s.dropAll()
}

func TestVerifC20(t *testing.T) {
	vfRun(t, "C20", func(e *vfEnv, r *vfResult) {
		n := e.n(3000, 150000)
		for i := 0; i < n; i++ {
			if e.only >= 0 && i != e.only {
				continue
			}
			switch {
			case i%20 == 19:
				vfC20Errors(e, r, i)
			case i%10 == 7:
				vfC20Auto(e, r, i)
			case i%20 == 13:
				vfC03RenominateRace(e, r, i) // "only a controlling agent can renominate", also while its role is being switched
			case i%2 == 0:
				vfC20Peer(e, r, i)
			default:
				vfC20Agents(e, r, i)
			}
		}
	})
}

var _ = strings.Contains
