//go:build verif

package ice

// Common scaffolding for the runtime-verification harness (see /verif/DESIGN.md).
// These files live in /verif/harness/ice and are injected into package ice with
// `go test -overlay`; nothing here is part of pion/ice.

import (
	"net/netip"
	"sync/atomic"
	"encoding/json"
	"fmt"
	"hash/fnv"
	"math/rand/v2"
	"os"
	"path/filepath"
	"runtime"
	"sort"
	"strconv"
	"strings"
	"sync"
	"testing"
	"time"

	"github.com/pion/logging"
)

type vfEnv struct {
	seed    uint64
	tier    string
	shard   int
	nshards int
	out     string
	replay  string
	prop    string
	scale   float64
	only    int // >= 0: run only this case index (replay)
}

func vfGetEnv(prop string) *vfEnv {
	e := &vfEnv{seed: 1, tier: "quick", nshards: 1, prop: prop, scale: 1, only: -1}
	if s := os.Getenv("VERIF_SEED"); s != "" {
		if v, err := strconv.ParseInt(s, 10, 64); err == nil {
			e.seed = uint64(v) //nolint:gosec
		}
	}
	if s := os.Getenv("VERIF_TIER"); s == "thorough" {
		e.tier = s
	}
	if s := os.Getenv("VERIF_SHARD"); s != "" {
		parts := strings.Split(s, "/")
		if len(parts) == 2 {
			e.shard, _ = strconv.Atoi(parts[0])
			e.nshards, _ = strconv.Atoi(parts[1])
		}
	}
	if e.nshards < 1 {
		e.nshards = 1
	}
	if s := os.Getenv("VERIF_SCALE"); s != "" {
		if v, err := strconv.ParseFloat(s, 64); err == nil && v > 0 {
			e.scale = v
		}
	}
	e.out = os.Getenv("VERIF_OUT")
	if e.out == "" {
		e.out = filepath.Join(os.TempDir(), "verif-out")
	}
	_ = os.MkdirAll(e.out, 0o755)
	e.replay = os.Getenv("VERIF_REPLAY")
	if e.replay != "" {
		// a replay re-executes exactly the recorded (seed, tier, shard, case index)
		var w struct {
			Seed    uint64 `json:"seed"`
			Tier    string `json:"tier"`
			Shard   int    `json:"shard"`
			NShards int    `json:"nshards"`
			Witness struct {
				Idx *int `json:"idx"`
			} `json:"witness"`
		}
		if b, err := os.ReadFile(e.replay); err == nil && json.Unmarshal(b, &w) == nil {
			e.seed, e.shard, e.nshards = w.Seed, w.Shard, w.NShards
			if w.Tier != "" {
				e.tier = w.Tier
			}
			if w.Witness.Idx != nil {
				e.only = *w.Witness.Idx
			}
		}
	}
	if s := os.Getenv("VERIF_ONLY"); s != "" {
		e.only, _ = strconv.Atoi(s)
	}

	return e
}

// vfQuickFactor scales every quick-tier case count (the per-workload numbers in the harness files
// are the base unit; quick runs are sized for about a minute per property on 16 cores).
const vfQuickFactor = 4

// vfThoroughFactor deepens the thorough tier of the checks whose thorough run used to finish in about a minute (measured
// on 16 cores: every thorough tier now runs for roughly 3 to 8 minutes).
var vfThoroughFactor = map[string]int{ //nolint:gochecknoglobals
	"C08": 8, "C09": 6, "C10": 4, "C11": 3, "C13": 5, "C15": 4, "C16": 6, "C17": 3, "C18": 3, "C19": 20, "C05": 4, "C04": 3, "C20": 3, "C03": 2,
}

// n scales a per-tier case count and splits it over shards.
func (e *vfEnv) n(quick, thorough int) int {
	total := quick * vfQuickFactor
	if e.tier == "thorough" {
		total = thorough
		if f := vfThoroughFactor[e.prop]; f > 1 {
			total *= f
		}
	}
	total = int(float64(total) * e.scale)
	per := total / e.nshards
	if e.shard < total%e.nshards {
		per++
	}
	if per < 1 {
		per = 1
	}

	return per
}

func vfHash(parts ...any) uint64 {
	h := fnv.New64a()
	for _, p := range parts {
		fmt.Fprintf(h, "%v|", p)
	}

	return h.Sum64()
}

// rng returns a PCG stream determined by (seed, property, shard, run index).
func (e *vfEnv) rng(idx int, stream string) *rand.Rand {
	return rand.New(rand.NewPCG(e.seed*0x9E3779B97F4A7C15+uint64(e.shard)*1000003+uint64(idx), vfHash(e.prop, stream))) //nolint:gosec
}

type vfViolation struct {
	Sig    string `json:"sig"`
	Msg    string `json:"msg"`
	Replay string `json:"replay"`
}

type vfResult struct {
	mu           sync.Mutex
	env          *vfEnv
	start        time.Time
	Property     string                     `json:"property"`
	Shard        int                        `json:"shard"`
	Evaluations  int64                      `json:"evaluations"`
	Distinct     map[string]bool            `json:"-"`
	DistinctKeys []string                   `json:"distinct_keys"`
	Samples      []any                      `json:"samples"`
	Violations   []vfViolation              `json:"violations"`
	Inconclusive int64                      `json:"inconclusive"`
	OutOfScope   int64                      `json:"out_of_scope"`
	Counters     map[string]int64           `json:"counters"`
	Sets         map[string]map[string]bool `json:"-"`
	SetsOut      map[string][]string        `json:"sets"`
	Notes        []string                   `json:"notes"`
	WallS        float64                    `json:"wall_s"`
	Done         bool                       `json:"done"`
	maxSamples   int
	nviol        int
}

func vfNewResult(e *vfEnv) *vfResult {
	return &vfResult{
		env: e, start: time.Now(), Property: e.prop, Shard: e.shard,
		Distinct: map[string]bool{}, Counters: map[string]int64{}, Sets: map[string]map[string]bool{},
		maxSamples: 6,
	}
}

func (r *vfResult) eval(n int64) {
	r.mu.Lock()
	r.Evaluations += n
	r.mu.Unlock()
}

// distinct records a non-trivial case under its abstraction key.
func (r *vfResult) distinct(key string) {
	r.mu.Lock()
	if len(r.Distinct) < 400000 {
		r.Distinct[key] = true
	}
	r.mu.Unlock()
}

func (r *vfResult) count(name string, n int64) {
	r.mu.Lock()
	r.Counters[name] += n
	r.mu.Unlock()
}

// set records a member of a named coverage set (edges seen, classes seen ...).
func (r *vfResult) set(name, member string) {
	r.mu.Lock()
	m := r.Sets[name]
	if m == nil {
		m = map[string]bool{}
		r.Sets[name] = m
	}
	if len(m) < 5000 {
		m[member] = true
	}
	r.mu.Unlock()
}

func (r *vfResult) sample(v any) {
	r.mu.Lock()
	if len(r.Samples) < r.maxSamples {
		r.Samples = append(r.Samples, v)
	}
	r.mu.Unlock()
}

func (r *vfResult) note(format string, args ...any) {
	r.mu.Lock()
	if len(r.Notes) < 50 {
		r.Notes = append(r.Notes, fmt.Sprintf(format, args...))
	}
	r.mu.Unlock()
}

func (r *vfResult) inconclusive(n int64) {
	r.mu.Lock()
	r.Inconclusive += n
	r.mu.Unlock()
}

func (r *vfResult) outOfScope(n int64) {
	r.mu.Lock()
	r.OutOfScope += n
	r.mu.Unlock()
}

// violation records a violation with a stable signature (used to match
// known_findings.jsonl) and writes the witness to a replay file.
func (r *vfResult) violation(sig, msg string, witness any) {
	r.mu.Lock()
	defer r.mu.Unlock()
	r.nviol++
	// keep at most 5 witnesses per signature, 200 overall
	same := 0
	for _, v := range r.Violations {
		if v.Sig == sig {
			same++
		}
	}
	if same >= 5 || len(r.Violations) >= 200 {
		r.Counters["violations_suppressed_duplicates"]++

		return
	}
	path := filepath.Join(r.env.out, fmt.Sprintf("violation-s%d-%d.json", r.env.shard, r.nviol))
	b, err := json.MarshalIndent(map[string]any{
		"property": r.Property, "seed": r.env.seed, "tier": r.env.tier, "shard": r.env.shard,
		"nshards": r.env.nshards, "sig": sig, "msg": msg, "witness": witness,
	}, "", " ")
	if err != nil {
		b = []byte(fmt.Sprintf(`{"property":%q,"sig":%q,"msg":%q,"witness_error":%q}`, r.Property, sig, msg, err.Error()))
	}
	_ = os.WriteFile(path, b, 0o644) //nolint:gosec
	r.Violations = append(r.Violations, vfViolation{Sig: sig, Msg: msg, Replay: path})
}

func (r *vfResult) nViolations() int {
	r.mu.Lock()
	defer r.mu.Unlock()

	return r.nviol
}

func (r *vfResult) write() {
	r.mu.Lock()
	defer r.mu.Unlock()
	r.DistinctKeys = r.DistinctKeys[:0]
	for k := range r.Distinct {
		r.DistinctKeys = append(r.DistinctKeys, strconv.FormatUint(vfHash(k), 36))
	}
	sort.Strings(r.DistinctKeys)
	r.SetsOut = map[string][]string{}
	for name, m := range r.Sets {
		l := make([]string, 0, len(m))
		for k := range m {
			l = append(l, k)
		}
		sort.Strings(l)
		r.SetsOut[name] = l
	}
	r.WallS = time.Since(r.start).Seconds()
	r.Done = true
	b, err := json.Marshal(r)
	if err != nil {
		panic(err)
	}
	path := filepath.Join(r.env.out, fmt.Sprintf("result-%d.json", r.env.shard))
	if err := os.WriteFile(path, b, 0o644); err != nil { //nolint:gosec
		panic(err)
	}
}

// vfRun is the standard wrapper of a harness entry point.
func vfRun(t *testing.T, prop string, body func(e *vfEnv, r *vfResult)) {
	t.Helper()
	e := vfGetEnv(prop)
	r := vfNewResult(e)
	body(e, r)
	r.write()
	if n := r.nViolations(); n > 0 {
		t.Logf("%s: %d violation(s) recorded", prop, n)
	}
}

func vfQuietLogger() logging.LoggerFactory {
	lf := logging.NewDefaultLoggerFactory()
	lf.DefaultLogLevel = logging.LogLevelDisabled

	return lf
}

func vfStacks() string {
	buf := make([]byte, 1<<20)
	n := runtime.Stack(buf, true)

	return string(buf[:n])
}

// vfRecover runs f and converts a panic into an error string (used only where
// "never panics" is itself part of the property).
func vfRecover(f func()) (panicked string) {
	defer func() {
		if p := recover(); p != nil {
			panicked = fmt.Sprintf("%v", p)
		}
	}()
	f()

	return ""
}

// vfCanary measures how late this process's goroutines are being run: a goroutine sleeps 1 ms at a time and records the
// largest overshoot.  Oracles whose subject has a real-time deadline of its own (a first-frame timeout, say) use it to
// tell "the code under test was late" from "the machine did not run anybody for a while": the latter is not judged.
type vfCanary struct {
	stop chan struct{}
	done chan struct{}
	max  atomic.Int64
}

func newVfCanary() *vfCanary {
	c := &vfCanary{stop: make(chan struct{}), done: make(chan struct{})}
	go func() {
		defer close(c.done)
		for {
			select {
			case <-c.stop:
				return
			default:
			}
			t := time.Now()
			time.Sleep(time.Millisecond)
			if over := int64(time.Since(t) - time.Millisecond); over > c.max.Load() {
				c.max.Store(over)
			}
		}
	}()

	return c
}

// worst returns the largest overshoot seen so far.
func (c *vfCanary) worst() time.Duration { return time.Duration(c.max.Load()) }

func (c *vfCanary) close() {
	close(c.stop)
	<-c.done
}

// vfRefCanonAP is the harness's own reference for "the same transport address": an IPv4 address in IPv6 form is the IPv4
// address, and a zone counts only on link-local IPv6 addresses.  (Written from the documentation of canonicalAddr, not
// calling it: an oracle that shares the subject's code inherits its mistakes.)
func vfRefCanonAP(ap netip.AddrPort) netip.AddrPort {
	a := ap.Addr().Unmap()
	if !(a.Is6() && a.IsLinkLocalUnicast()) {
		a = a.WithZone("")
	}

	return netip.AddrPortFrom(a, ap.Port())
}
