//go:build verif

package ice

// C17: candidate and pair priorities follow the RFC formulas for every configuration.
// Reference-model monitor: the real Priority/TypePreference/LocalPreference/pair
// priority/Foundation functions are evaluated on an exhaustive grid and compared
// with an independent reference written from the property statement.

import (
	"fmt"
	"hash/crc32"
	"math/big"
	"net"
	"testing"
)

type vfPrioCand struct {
	candidateBase
	p uint32
}

func (c *vfPrioCand) Priority() uint32 { return c.p }

type vfC17Combo struct {
	typ     CandidateType
	network NetworkType
	tcpType TCPType
	relay   string
	cand    Candidate
	base    *candidateBase
	seenTP  map[int]bool
}

func vfC17RefTypePref(typ CandidateType, network NetworkType, offset uint16) int {
	pref := map[CandidateType]int{
		CandidateTypeHost: 126, CandidateTypePeerReflexive: 110, CandidateTypeServerReflexive: 100, CandidateTypeRelay: 0,
	}[typ]
	if network.IsTCP() {
		pref -= int(offset)
		if pref < 0 {
			pref = 0
		}
	}

	return pref
}

func vfC17RefLocalPref(typ CandidateType, network NetworkType, tcpType TCPType, relay string) int {
	if typ == CandidateTypeRelay {
		switch relay {
		case "tls":
			return 0
		case "tcp":
			return 1
		case "dtls":
			return 2
		default:
			return 3
		}
	}
	if !network.IsTCP() {
		return 65535
	}
	dir := 0
	switch typ { //nolint:exhaustive
	case CandidateTypeHost:
		dir = map[TCPType]int{TCPTypeActive: 6, TCPTypePassive: 4, TCPTypeSimultaneousOpen: 2}[tcpType]
	case CandidateTypePeerReflexive, CandidateTypeServerReflexive:
		dir = map[TCPType]int{TCPTypeSimultaneousOpen: 6, TCPTypeActive: 4, TCPTypePassive: 2}[tcpType]
	}

	return 8192*dir + 8191
}

func vfC17Combos() ([]*vfC17Combo, error) {
	var out []*vfC17Combo
	types := []CandidateType{CandidateTypeHost, CandidateTypePeerReflexive, CandidateTypeServerReflexive, CandidateTypeRelay}
	nets := []NetworkType{NetworkTypeUDP4, NetworkTypeUDP6, NetworkTypeTCP4, NetworkTypeTCP6}
	tcpTypes := []TCPType{TCPTypeUnspecified, TCPTypeActive, TCPTypePassive, TCPTypeSimultaneousOpen}
	relays := []string{"udp", "tcp", "dtls", "tls"}
	for _, typ := range types {
		for _, nw := range nets {
			addr := "10.1.2.3"
			if nw.IsIPv6() {
				addr = "2001:db8::7"
			}
			tts := []TCPType{TCPTypeUnspecified}
			if nw.IsTCP() {
				tts = tcpTypes
			}
			rps := []string{""}
			if typ == CandidateTypeRelay {
				rps = relays
			}
			for _, tt := range tts {
				for _, rp := range rps {
					var c Candidate
					var err error
					var base *candidateBase
					switch typ { //nolint:exhaustive
					case CandidateTypeHost:
						var h *CandidateHost
						h, err = NewCandidateHost(&CandidateHostConfig{Network: nw.NetworkShort(), Address: addr, Port: 4000, Component: 1, TCPType: tt})
						if err == nil {
							c, base = h, &h.candidateBase
						}
					case CandidateTypePeerReflexive:
						var h *CandidatePeerReflexive
						h, err = NewCandidatePeerReflexive(&CandidatePeerReflexiveConfig{Network: nw.NetworkShort(), Address: addr, Port: 4000, Component: 1, RelAddr: addr, RelPort: 4001})
						if err == nil {
							c, base = h, &h.candidateBase
						}
					case CandidateTypeServerReflexive:
						var h *CandidateServerReflexive
						h, err = NewCandidateServerReflexive(&CandidateServerReflexiveConfig{Network: nw.NetworkShort(), Address: addr, Port: 4000, Component: 1, RelAddr: addr, RelPort: 4001})
						if err == nil {
							c, base = h, &h.candidateBase
						}
					case CandidateTypeRelay:
						var h *CandidateRelay
						h, err = NewCandidateRelay(&CandidateRelayConfig{Network: nw.NetworkShort(), Address: addr, Port: 4000, Component: 1, RelAddr: addr, RelPort: 4001, RelayProtocol: rp})
						if err == nil {
							c, base = h, &h.candidateBase
						}
					}
					if err != nil {
						return nil, fmt.Errorf("constructor %v %v: %w", typ, nw, err)
					}
					if tt != TCPTypeUnspecified && typ != CandidateTypeHost {
						// tcptype on non-host candidates arrives as an extension, the way a parsed candidate gets it
						if err := c.AddExtension(CandidateExtension{Key: "tcptype", Value: tt.String()}); err != nil {
							return nil, err
						}
					}
					out = append(out, &vfC17Combo{typ: typ, network: nw, tcpType: tt, relay: rp, cand: c, base: base, seenTP: map[int]bool{}})
				}
			}
		}
	}

	return out, nil
}

func TestVerifC17(t *testing.T) { //nolint:cyclop,maintidx
	vfRun(t, "C17", func(e *vfEnv, r *vfResult) {
		combos, err := vfC17Combos()
		if err != nil {
			r.violation("harness:constructors", err.Error(), nil)

			return
		}

		// (1) configuration path: WithTCPPriorityOffset / AgentConfig.TCPPriorityOffset reach the agent unchanged.
		rng := e.rng(0, "cfg")
		offs := []uint16{0, 1, 26, 27, 28, 99, 100, 101, 109, 110, 111, 125, 126, 127, 128, 255, 256, 32767, 32768, 65534, 65535}
		for i := 0; i < 12; i++ {
			offs = append(offs, uint16(rng.UintN(65536))) //nolint:gosec
		}
		var agent *Agent
		for i := 0; i < 2*len(offs); i++ {
			off := offs[i/2] // every offset through both configuration paths
			var a *Agent
			var err error
			if i%2 == 0 {
				a, err = NewAgentWithOptions(WithTCPPriorityOffset(off), WithMulticastDNSMode(MulticastDNSModeDisabled), WithLoggerFactory(vfQuietLogger()))
			} else {
				o := off
				a, err = NewAgent(&AgentConfig{TCPPriorityOffset: &o, MulticastDNSMode: MulticastDNSModeDisabled, LoggerFactory: vfQuietLogger()})
			}
			if err != nil {
				r.violation("harness:newagent", err.Error(), nil)

				return
			}
			r.eval(1)
			if a.tcpPriorityOffset != off {
				r.violation("cfg-offset", fmt.Sprintf("configured TCP priority offset %d but agent holds %d", off, a.tcpPriorityOffset), map[string]any{"offset": off})
			}
			// evaluate the full combination table through this real agent
			for _, cb := range combos {
				cb.base.currAgent = a
				cb.base.component = 1
				vfC17CheckOne(r, cb, off, 1)
			}
			r.eval(int64(len(combos)))
			if agent != nil {
				_ = a.Close()
			} else {
				agent = a
			}
		}
		defer agent.Close() //nolint:errcheck
		// default offset when nothing is configured
		if d, err := NewAgent(&AgentConfig{MulticastDNSMode: MulticastDNSModeDisabled, LoggerFactory: vfQuietLogger()}); err == nil {
			if d.tcpPriorityOffset != 27 {
				r.violation("cfg-default-offset", fmt.Sprintf("default TCP priority offset is %d, documented 27", d.tcpPriorityOffset), nil)
			}
			_ = d.Close()
		}

		// (2) exhaustive grid offset 0..65535 (sharded) x combination x components.
		comps := []uint16{1, 2, 128, 255}
		if e.tier == "thorough" {
			comps = comps[:0]
			for c := uint16(1); c <= 255; c++ {
				comps = append(comps, c)
			}
		}
		for _, cb := range combos {
			cb.base.currAgent = agent
		}
		nOff := 0
		for off := e.shard; off < 65536; off += e.nshards {
			agent.tcpPriorityOffset = uint16(off) //nolint:gosec
			nOff++
			for _, cb := range combos {
				for _, comp := range comps {
					cb.cand.SetComponent(comp)
					vfC17CheckOne(r, cb, uint16(off), comp) //nolint:gosec
				}
			}
			r.eval(int64(len(combos) * len(comps)))
			if r.nViolations() > 50 {
				break
			}
		}
		for _, cb := range combos {
			for tp := range cb.seenTP {
				r.distinct(fmt.Sprintf("%v/%v/%v/%s/tp=%d", cb.typ, cb.network, cb.tcpType, cb.relay, tp))
			}
			cb.cand.SetComponent(1)
			r.sample(map[string]any{"type": cb.typ.String(), "network": cb.network.String(), "tcptype": cb.tcpType.String(), "relay": cb.relay,
				"offset": agent.tcpPriorityOffset, "component": 1, "priority": cb.cand.Priority(), "type_pref": cb.base.TypePreference(), "local_pref": cb.base.LocalPreference()})
		}
		r.count("offsets_enumerated", int64(nOff))
		r.count("combinations", int64(len(combos)))
		r.count("components", int64(len(comps)))
		if nOff == (65536-e.shard+e.nshards-1)/e.nshards {
			r.count("exhaustive_complete", 1)
		}
		// candidate without an agent uses the default offset
		for _, cb := range combos {
			cb.base.currAgent = nil
			cb.cand.SetComponent(1)
			vfC17CheckOne(r, cb, 27, 1)
		}

		// (3) pair priority formula.
		bvals := []uint32{0, 1, 2, 3, 255, 256, 1 << 8, 1<<16 - 1, 1 << 16, 1<<24 - 1, 1 << 24, 1<<24 + 1, 100 << 24, 110 << 24, 126 << 24,
			1<<31 - 2, 1<<31 - 1, 1 << 31, 1<<31 + 1, 1<<32 - 3, 1<<32 - 2, 1<<32 - 1, 2130706431, 2113937151, 1694498815, 16777215}
		nPairEval := int64(0)
		checkPair := func(g, d uint32) {
			nPairEval++
			got := vfC17Pair(g, d, true)
			mirror := vfC17Pair(g, d, false)
			ref := vfC17RefPair(g, d)
			if ref.BitLen() > 64 {
				r.violation("pair-ref-overflow", fmt.Sprintf("reference overflows for G=%d D=%d", g, d), nil)
			}
			if new(big.Int).SetUint64(got).Cmp(ref) != 0 {
				r.violation("pair-formula", fmt.Sprintf("pair priority G=%d D=%d: got %d want %s", g, d, got, ref), map[string]any{"G": g, "D": d})
			}
			if mirror != got {
				r.violation("pair-mirror", fmt.Sprintf("pair priority differs between agents G=%d D=%d: controlling %d controlled %d", g, d, got, mirror), map[string]any{"G": g, "D": d})
			}
			// monotone in each argument
			if g < 1<<32-1 {
				if up := vfC17Pair(g+1, d, true); up < got {
					r.violation("pair-monotone", fmt.Sprintf("not monotone in G: f(%d,%d)=%d > f(%d,%d)=%d", g, d, got, g+1, d, up), map[string]any{"G": g, "D": d})
				}
			}
			if d < 1<<32-1 {
				if up := vfC17Pair(g, d+1, true); up < got {
					r.violation("pair-monotone", fmt.Sprintf("not monotone in D: f(%d,%d)=%d > f(%d,%d)=%d", g, d, got, g, d+1, up), map[string]any{"G": g, "D": d})
				}
			}
		}
		if e.shard == 0 {
			for _, g := range bvals {
				for _, d := range bvals {
					checkPair(g, d)
					r.distinct(fmt.Sprintf("pair-b/%d/%d", g, d))
				}
			}
		}
		prng := e.rng(1, "pairs")
		nPairs := e.n(2000000, 40000000)
		for i := 0; i < nPairs; i++ {
			g, d := prng.Uint32(), prng.Uint32()
			switch i % 8 {
			case 1:
				d = g
			case 2:
				d = g + 1
			case 3:
				g >>= uint(prng.UintN(32))
			case 4:
				d >>= uint(prng.UintN(32))
			}
			checkPair(g, d)
			if i < 3 {
				r.sample(map[string]any{"kind": "pair", "G": g, "D": d, "priority": vfC17Pair(g, d, true)})
			}
		}
		r.eval(nPairEval)
		r.count("pair_random", int64(nPairs))
		// the pair priority through real candidates (not the stub): local/remote priorities from Priority()
		for _, la := range combos[:8] {
			for _, rb := range combos[:8] {
				la.base.currAgent, rb.base.currAgent = nil, nil
				p1 := newCandidatePair(la.cand, rb.cand, true)
				p2 := newCandidatePair(rb.cand, la.cand, false)
				r.eval(1)
				ref := vfC17RefPair(la.cand.Priority(), rb.cand.Priority())
				if p1.priority() != p2.priority() || new(big.Int).SetUint64(p1.priority()).Cmp(ref) != 0 {
					r.violation("pair-real-cands", fmt.Sprintf("pair of %s / %s: controlling view %d, controlled view %d, reference %s", la.cand, rb.cand, p1.priority(), p2.priority(), ref), nil)
				}
			}
		}

		// (4) foundations coincide exactly for equal (type, address, network type).
		if e.shard == 0 {
			vfC17Foundations(e, r)
		}
	})
}

func vfC17CheckOne(r *vfResult, cb *vfC17Combo, off, comp uint16) {
	tp := int(cb.base.TypePreference())
	lp := int(cb.base.LocalPreference())
	prio := uint64(cb.cand.Priority())
	wtp := vfC17RefTypePref(cb.typ, cb.network, off)
	wlp := vfC17RefLocalPref(cb.typ, cb.network, cb.tcpType, cb.relay)
	want := uint64(wtp)<<24 + uint64(wlp)<<8 + uint64(256-int(comp))
	if tp == wtp && lp == wlp && prio == want && prio >= 1 && prio <= 1<<31-1 && tp <= 126 {
		if comp == 1 {
			// abstraction for the distinct count: combination x resulting type preference (covers saturation)
			cb.seenTP[wtp] = true
		}

		return
	}
	key := fmt.Sprintf("%v/%v/%v/%s", cb.typ, cb.network, cb.tcpType, cb.relay)
	wit := map[string]any{"type": cb.typ.String(), "network": cb.network.String(), "tcptype": cb.tcpType.String(), "relay": cb.relay, "offset": off, "component": comp,
		"got": map[string]any{"type_pref": tp, "local_pref": lp, "priority": prio}, "want": map[string]any{"type_pref": wtp, "local_pref": wlp, "priority": want}}
	if tp != wtp {
		sig := "type-pref"
		if tp > 126 {
			sig = "type-pref-range"
		}
		r.violation(sig, fmt.Sprintf("type preference of %s offset %d: got %d want %d", key, off, tp, wtp), wit)
	}
	if lp != wlp {
		r.violation("local-pref", fmt.Sprintf("local preference of %s: got %d want %d", key, lp, wlp), wit)
	}
	if prio != want {
		sig := "priority"
		if prio > 1<<31-1 {
			sig = "priority-range"
		}
		r.violation(sig, fmt.Sprintf("priority of %s offset %d component %d: got %d want %d", key, off, comp, prio, want), wit)
	}
	if prio < 1 || prio > 1<<31-1 || tp < 0 || tp > 126 {
		r.violation("priority-range", fmt.Sprintf("priority/type preference out of range for %s offset %d component %d: prio %d tp %d", key, off, comp, prio, tp), wit)
	}
}

func vfC17Pair(g, d uint32, controlling bool) uint64 {
	cg := &vfPrioCand{p: g}
	cd := &vfPrioCand{p: d}
	if controlling {
		return newCandidatePair(cg, cd, true).priority()
	}

	return newCandidatePair(cd, cg, false).priority()
}

func vfC17RefPair(g, d uint32) *big.Int {
	mn, mx := g, d
	if d < g {
		mn, mx = d, g
	}
	v := new(big.Int).Mul(big.NewInt(1<<32-1), new(big.Int).SetUint64(uint64(mn)))
	v.Add(v, new(big.Int).Mul(big.NewInt(2), new(big.Int).SetUint64(uint64(mx))))
	if g > d {
		v.Add(v, big.NewInt(1))
	}

	return v
}

func vfC17Foundations(e *vfEnv, r *vfResult) {
	rng := e.rng(2, "foundation")
	type key struct {
		typ  CandidateType
		addr string
		nw   NetworkType
	}
	byFoundation := map[string]key{}
	byKey := map[key]string{}
	addrs := []string{}
	for i := 0; i < 120; i++ {
		addrs = append(addrs, net.IPv4(byte(10+rng.IntN(3)), byte(rng.IntN(256)), byte(rng.IntN(256)), byte(1+rng.IntN(250))).String())
		addrs = append(addrs, fmt.Sprintf("2001:db8:%x::%x", rng.IntN(65536), 1+rng.IntN(65000)))
	}
	mk := func(typ CandidateType, nw NetworkType, addr string, port int, comp uint16, tt TCPType, rport int) (Candidate, error) {
		switch typ { //nolint:exhaustive
		case CandidateTypeHost:
			return NewCandidateHost(&CandidateHostConfig{Network: nw.NetworkShort(), Address: addr, Port: port, Component: comp, TCPType: tt})
		case CandidateTypeServerReflexive:
			return NewCandidateServerReflexive(&CandidateServerReflexiveConfig{Network: nw.NetworkShort(), Address: addr, Port: port, Component: comp, RelAddr: "192.168.0.9", RelPort: rport})
		case CandidateTypePeerReflexive:
			return NewCandidatePeerReflexive(&CandidatePeerReflexiveConfig{Network: nw.NetworkShort(), Address: addr, Port: port, Component: comp, RelAddr: "192.168.0.9", RelPort: rport})
		default:
			return NewCandidateRelay(&CandidateRelayConfig{Network: nw.NetworkShort(), Address: addr, Port: port, Component: comp, RelAddr: "192.168.0.9", RelPort: rport, RelayProtocol: []string{"udp", "tcp", "tls", "dtls"}[rng.IntN(4)]})
		}
	}
	types := []CandidateType{CandidateTypeHost, CandidateTypeServerReflexive, CandidateTypePeerReflexive, CandidateTypeRelay}
	for _, addr := range addrs {
		is6 := net.ParseIP(addr).To4() == nil
		for _, typ := range types {
			for _, tcp := range []bool{false, true} {
				nw := NetworkTypeUDP4
				switch {
				case is6 && tcp:
					nw = NetworkTypeTCP6
				case is6:
					nw = NetworkTypeUDP6
				case tcp:
					nw = NetworkTypeTCP4
				}
				k := key{typ, addr, nw}
				for v := 0; v < 3; v++ { // vary everything that must NOT influence the foundation
					tt := TCPTypeUnspecified
					if tcp {
						tt = []TCPType{TCPTypeActive, TCPTypePassive, TCPTypeSimultaneousOpen}[rng.IntN(3)]
					}
					c, err := mk(typ, nw, addr, 1+rng.IntN(65535), uint16(1+rng.IntN(255)), tt, 1+rng.IntN(65535)) //nolint:gosec
					if err != nil {
						r.violation("harness:foundation-ctor", err.Error(), nil)

						return
					}
					r.eval(1)
					f := c.Foundation()
					if prev, ok := byKey[k]; ok && prev != f {
						r.violation("foundation-differs", fmt.Sprintf("same (type,address,network) %v gave foundations %s and %s", k, prev, f), map[string]any{"key": fmt.Sprint(k)})
					}
					byKey[k] = f
					if pk, ok := byFoundation[f]; ok && pk != k {
						// tolerated only if it is a genuine CRC-32 collision of the documented input
						c1 := crc32.ChecksumIEEE([]byte(pk.typ.String() + pk.addr + pk.nw.String()))
						c2 := crc32.ChecksumIEEE([]byte(k.typ.String() + k.addr + k.nw.String()))
						if c1 != c2 {
							r.violation("foundation-shared", fmt.Sprintf("different (type,address,network) %v and %v share foundation %s", pk, k, f), map[string]any{"a": fmt.Sprint(pk), "b": fmt.Sprint(k)})
						}
					}
					byFoundation[f] = k
				}
				r.distinct(fmt.Sprintf("foundation/%v/%v/%v", typ, nw, addr))
			}
		}
	}
	r.count("foundation_keys", int64(len(byKey)))
}

// vfC17Live: real agents over the simulated network; after every step each listed pair's priority must be the formula's
// value for the agent's current role (also after a role switch forced by a role conflict), and once both sides have
// converged, mirrored pairs carry the same number on both agents and are ordered identically.
func vfC17Live(e *vfEnv, r *vfResult, idx int) { //nolint:cyclop
	s := newVfSession(e, r, idx, "c17live")
	defer s.closeAll()
	t := vfGenTopo(s)
	sameRole := idx%2 == 0
	bothControlling := s.rng.IntN(2) == 0
	roleA, roleB := true, false
	if sameRole {
		t.Unreach = nil // NATs stay: server-reflexive / peer-reflexive candidates give the pairs unequal priorities
		roleA, roleB = bothControlling, bothControlling
	}
	ta, tb := 1+s.rng.Uint64N(1<<62), 1+s.rng.Uint64N(1<<62)
	if ta == tb {
		tb++
	}
	s.desc["topology"], s.desc["same_role_start"], s.desc["both_controlling"] = t, sameRole, bothControlling
	// remote candidates may be signalled before Dial/Accept decide the role: those pairs exist before the role is known
	var pending []vfPendingSignal
	var err error
	preSignalled := -1
	if s.rng.IntN(2) == 0 {
		s.beforeStart = func() {
			if pending, err = s.signalList(t); err != nil {
				return
			}
			preSignalled = s.rng.IntN(len(pending) + 1)
			for _, p := range pending[:preSignalled] {
				p.to.addRemote(p.cand)
			}
			pending = pending[preSignalled:]
		}
	}
	if err := s.setupPair(t, vfSideCfg{MaxBinding: 1000, TieBreaker: ta}, vfSideCfg{MaxBinding: 1000, TieBreaker: tb}, roleA, roleB); err != nil {
		r.inconclusive(1)

		return
	}
	if preSignalled < 0 {
		pending, err = s.signalList(t)
	}
	if err != nil {
		r.inconclusive(1)

		return
	}
	s.afterStep()
	budget := map[*vfSide]int{s.A: 30, s.B: 30}
	s.chaos(s.rng.IntN(120), budget, &pending, true)
	s.fairSuffix(&pending, 16, func() bool { ok, _ := s.bothConnectedMirror(); return ok && len(s.sw.inflightIDs()) == 0 })
	if s.broken != "" {
		r.inconclusive(1)

		return
	}
	sa, sb := s.A.snapshot(), s.B.snapshot()
	if sa.Err != nil || sb.Err != nil {
		r.inconclusive(1)

		return
	}
	switched := sameRole && sa.Controlling != sb.Controlling
	r.distinct(fmt.Sprintf("live/same=%v/both=%v/switched=%v/presignalled=%d/pairsA=%d/pairsB=%d", sameRole, bothControlling, switched, preSignalled, len(sa.Pairs), len(sb.Pairs)))
	if switched {
		r.count("c17_live_sessions_with_role_switch", 1)
	}
	if sa.Controlling == sb.Controlling {
		return // roles unresolved (C05's business): mirrored numbers are only promised for opposite roles
	}
	// mirrored pairs: A's (l, r) and B's (l', r') with l == r' and r == l' as transport addresses AND candidate priorities
	type key struct{ a, b string }
	bPairs := map[key]vfPairSnap{}
	for _, p := range sb.Pairs {
		bPairs[key{p.Remote, p.Local}] = p
	}
	type both struct{ pa, pb uint64 }
	var mirrored []both
	for _, p := range sa.Pairs {
		q, ok := bPairs[key{p.Local, p.Remote}]
		if !ok || q.RPrio != p.LPrio || q.LPrio != p.RPrio || p.PrioOverride || q.PrioOverride {
			continue // the peer knows this address under another priority (peer-reflexive vs signalled): not a mirrored pair
		}
		r.eval(1)
		r.count("c17_live_mirrored_pairs", 1)
		if p.Prio != q.Prio {
			s.viol("C17", "live-mirrored-pair-priority-differs", fmt.Sprintf("pair %s <-> %s (candidate priorities %d / %d): A computes %d, B computes %d", p.Local, p.Remote, p.LPrio, p.RPrio, p.Prio, q.Prio),
				map[string]any{"pair": p.Local + "|" + p.Remote, "a_priority": fmt.Sprint(p.Prio), "b_priority": fmt.Sprint(q.Prio), "a_controlling": sa.Controlling})

			return
		}
		mirrored = append(mirrored, both{p.Prio, q.Prio})
	}
	for i := range mirrored {
		for j := range mirrored {
			if (mirrored[i].pa < mirrored[j].pa) != (mirrored[i].pb < mirrored[j].pb) {
				s.viol("C17", "live-pair-order-differs", "two mirrored pairs are ordered differently on the two agents", nil)

				return
			}
		}
	}
	if idx < 3 {
		r.sample(map[string]any{"idx": idx, "kind": "live session", "same_role_start": sameRole, "role_switch_observed": switched, "mirrored_pairs": len(mirrored), "steps": s.stepN})
	}
}

func TestVerifC17Live(t *testing.T) {
	vfRun(t, "C17", func(e *vfEnv, r *vfResult) {
		n := e.n(800, 40000)
		for i := 0; i < n; i++ {
			if e.only >= 0 && i != e.only {
				continue
			}
			vfC17Live(e, r, i)
		}
	})
}
