//go:build verif

package ice

// C09: every socket the agent opens is closed when its candidate goes away.
// Resource-tally monitor: the fake transport.Net, counting mux wrappers and a fake TURN client
// give every acquisition an identity; scripted lifetimes enumerate the cut point of
// Restart / Close relative to each in-flight STUN exchange (before the reply, reply delivered
// after cancellation, after the candidate was added, no reply at all) under injected faults
// (n-th listen fails, TURN listen/allocate fails, duplicate candidates); at every quiescent
// point named by the statement the set of open resources must be empty.

import (
	"context"
	"errors"
	"fmt"
	"github.com/pion/ice/v4/internal/verifhook"
	"io"
	"net"
	"net/netip"
	"runtime"
	"strings"
	"sync"
	"sync/atomic"
	"testing"
	"time"

	"github.com/pion/stun/v3"
	"github.com/pion/turn/v5"
)

// ---------------------------------------------------------------- counted mux handles

type vfCountedConn struct {
	net.PacketConn
	kind   string
	closes atomic.Int32
}

func (c *vfCountedConn) Close() error {
	c.closes.Add(1)

	return c.PacketConn.Close()
}

func (c *vfCountedConn) abortWrite() error {
	if ab, ok := c.PacketConn.(writeAborter); ok {
		return ab.abortWrite()
	}

	return nil
}

type vfCountingUDPMux struct {
	*UDPMuxDefault
	mu      sync.Mutex
	handles []*vfCountedConn
	removed []string
}

func (m *vfCountingUDPMux) GetConn(ufrag string, addr net.Addr) (net.PacketConn, error) {
	pc, err := m.UDPMuxDefault.GetConn(ufrag, addr)
	if err != nil {
		return nil, err
	}
	cc := &vfCountedConn{PacketConn: pc, kind: "udpmux:" + ufrag}
	m.mu.Lock()
	m.handles = append(m.handles, cc)
	m.mu.Unlock()

	return cc, nil
}

func (m *vfCountingUDPMux) RemoveConnByUfrag(ufrag string) {
	m.mu.Lock()
	m.removed = append(m.removed, ufrag)
	m.mu.Unlock()
	m.UDPMuxDefault.RemoveConnByUfrag(ufrag)
}

// vfCountingUniMux counts the handles the agent takes from a UniversalUDPMuxDefault (server-reflexive gathering over a
// shared socket: WithUDPMuxSrflx / AgentConfig.UDPMuxSrflx).
type vfCountingUniMux struct {
	*UniversalUDPMuxDefault
	mu      sync.Mutex
	handles []*vfCountedConn
}

func (m *vfCountingUniMux) GetConnForURL(ufrag string, url string, addr net.Addr) (net.PacketConn, error) {
	pc, err := m.UniversalUDPMuxDefault.GetConnForURL(ufrag, url, addr)
	if err != nil {
		return nil, err
	}
	cc := &vfCountedConn{PacketConn: pc, kind: "udpmux-srflx:" + ufrag + "@" + url}
	m.mu.Lock()
	m.handles = append(m.handles, cc)
	m.mu.Unlock()

	return cc, nil
}

type vfFakeTCPConn struct {
	local  net.Addr
	closed chan struct{}
	once   sync.Once
}

func (c *vfFakeTCPConn) ReadFrom([]byte) (int, net.Addr, error) { <-c.closed; return 0, nil, io.EOF }
func (c *vfFakeTCPConn) WriteTo(b []byte, _ net.Addr) (int, error) {
	select {
	case <-c.closed:
		return 0, io.ErrClosedPipe
	default:
		return len(b), nil
	}
}
func (c *vfFakeTCPConn) Close() error                     { c.once.Do(func() { close(c.closed) }); return nil }
func (c *vfFakeTCPConn) LocalAddr() net.Addr              { return c.local }
func (c *vfFakeTCPConn) SetDeadline(time.Time) error      { return nil }
func (c *vfFakeTCPConn) SetReadDeadline(time.Time) error  { return nil }
func (c *vfFakeTCPConn) SetWriteDeadline(time.Time) error { return nil }

type vfFakeTCPMux struct {
	mu      sync.Mutex
	handles []*vfCountedConn
	removed []string
	addr    *net.TCPAddr
}

func (m *vfFakeTCPMux) Close() error { return nil }
func (m *vfFakeTCPMux) GetConnByUfrag(ufrag string, _ bool, local net.IP) (net.PacketConn, error) {
	cc := &vfCountedConn{PacketConn: &vfFakeTCPConn{local: &net.TCPAddr{IP: local, Port: m.addr.Port}, closed: make(chan struct{})}, kind: "tcpmux:" + ufrag}
	m.mu.Lock()
	m.handles = append(m.handles, cc)
	m.mu.Unlock()

	return cc, nil
}

func (m *vfFakeTCPMux) RemoveConnByUfrag(ufrag string) {
	m.mu.Lock()
	m.removed = append(m.removed, ufrag)
	m.mu.Unlock()
}
func (m *vfFakeTCPMux) LocalAddr() net.Addr { return m.addr }

// ---------------------------------------------------------------- fake TURN client

type vfTurnTally struct {
	mu         sync.Mutex
	clients    []*vfTurnClient
	failListen bool
	failAlloc  bool
	sw         *vfSwitch
	relayIP    string
	nextPort   int
	holdAlloc  chan struct{} // directed schedule: Allocate waits until this channel is closed (a slow TURN server)
	inAlloc    atomic.Int32
	allocDelay time.Duration // a TURN server that takes this long to allocate
}

type vfTurnClient struct {
	t        *vfTurnTally
	conn     net.PacketConn
	closes   atomic.Int32
	listened bool
	relay    *vfConn
}

func (c *vfTurnClient) Listen() error {
	if c.t.failListen {
		return errors.New("vfTurn: injected listen failure")
	}
	c.listened = true

	return nil
}

func (c *vfTurnClient) Allocate() (net.PacketConn, error) {
	if c.t.failAlloc {
		return nil, errors.New("vfTurn: injected allocate failure")
	}
	if c.t.allocDelay > 0 {
		time.Sleep(c.t.allocDelay)
	}
	if c.t.holdAlloc != nil {
		c.t.inAlloc.Add(1)
		<-c.t.holdAlloc
		c.t.inAlloc.Add(-1)
	}
	c.t.mu.Lock()
	c.t.nextPort++
	port := 49000 + c.t.nextPort
	c.t.mu.Unlock()
	n := vfSimpleNet(c.t.sw, "relay-alloc", c.t.relayIP)
	pc, err := n.ListenUDP("udp", &net.UDPAddr{IP: net.ParseIP(c.t.relayIP), Port: port})
	if err != nil {
		return nil, err
	}
	c.relay = pc.(*vfConn) //nolint:forcetypeassert

	return pc, nil
}
func (c *vfTurnClient) Close() { c.closes.Add(1) }

func (t *vfTurnTally) factory(cfg *turn.ClientConfig) (turnClient, error) {
	c := &vfTurnClient{t: t, conn: cfg.Conn}
	t.mu.Lock()
	t.clients = append(t.clients, c)
	t.mu.Unlock()

	return c, nil
}

// ---------------------------------------------------------------- scenario

type vfC09Env struct {
	sw    *vfSwitch
	a     *Agent
	srv   []*vfStunServer
	umux  *vfCountingUDPMux
	smux  *vfCountingUniMux
	tmux  *vfFakeTCPMux
	turn  *vfTurnTally
	kind  string
	dones []chan struct{}
	trace []string
}

// leaks lists resources of the agent that are still open. mDNS sockets (port 5353) belong to the agent, not to a generation.
func (x *vfC09Env) leaks(includeAgentLifetime bool) []string {
	var out []string
	x.sw.mu.Lock()
	for _, c := range x.sw.all {
		if (c.owner == "A" || c.owner == "relay-alloc") && !c.isClosed() {
			if c.local.Port() == 5353 {
				continue // mDNS sockets are opened at construction, not while gathering: outside this property (see DESIGN 7.3)
			}
			out = append(out, fmt.Sprintf("socket %s (%s)", c.local, c.owner))
		}
	}
	x.sw.mu.Unlock()
	if x.umux != nil {
		x.umux.mu.Lock()
		for _, h := range x.umux.handles {
			if h.closes.Load() == 0 {
				out = append(out, "mux handle "+h.kind)
			}
		}
		x.umux.mu.Unlock()
		// the mux unregisters a closed connection from a watcher goroutine: give it a bounded moment
		for dl := time.Now().Add(2 * time.Second); time.Now().Before(dl); time.Sleep(20 * time.Microsecond) {
			x.umux.UDPMuxDefault.mu.Lock()
			n := len(x.umux.UDPMuxDefault.connsIPv4) + len(x.umux.UDPMuxDefault.connsIPv6)
			x.umux.UDPMuxDefault.mu.Unlock()
			if n == 0 {
				break
			}
		}
		x.umux.UDPMuxDefault.mu.Lock()
		for uf := range x.umux.UDPMuxDefault.connsIPv4 {
			out = append(out, "udp mux still has a connection registered for ufrag "+uf)
		}
		for uf := range x.umux.UDPMuxDefault.connsIPv6 {
			out = append(out, "udp mux still has a v6 connection registered for ufrag "+uf)
		}
		x.umux.UDPMuxDefault.mu.Unlock()
	}
	if x.tmux != nil {
		x.tmux.mu.Lock()
		for _, h := range x.tmux.handles {
			if h.closes.Load() == 0 {
				out = append(out, "mux handle "+h.kind)
			}
		}
		x.tmux.mu.Unlock()
	}
	if x.smux != nil {
		x.smux.mu.Lock()
		for _, h := range x.smux.handles {
			if h.closes.Load() == 0 {
				out = append(out, "mux handle "+h.kind)
			}
		}
		x.smux.mu.Unlock()
		inner := x.smux.UniversalUDPMuxDefault.UDPMuxDefault
		for dl := time.Now().Add(2 * time.Second); time.Now().Before(dl); time.Sleep(20 * time.Microsecond) {
			inner.mu.Lock()
			n := len(inner.connsIPv4) + len(inner.connsIPv6)
			inner.mu.Unlock()
			if n == 0 {
				break
			}
		}
		inner.mu.Lock()
		for uf := range inner.connsIPv4 {
			out = append(out, "srflx udp mux still has a connection registered under "+uf)
		}
		for uf := range inner.connsIPv6 {
			out = append(out, "srflx udp mux still has a v6 connection registered under "+uf)
		}
		inner.mu.Unlock()
	}
	if x.turn != nil {
		x.turn.mu.Lock()
		for i, c := range x.turn.clients {
			if c.closes.Load() == 0 {
				out = append(out, fmt.Sprintf("TURN client #%d never closed", i))
			}
		}
		x.turn.mu.Unlock()
	}

	return out
}

// heldVsOpen compares the resources that are open with what the currently listed local candidates hold
// (one socket or mux handle per candidate; a relay candidate also holds its TURN control socket and client).
func (x *vfC09Env) heldVsOpen() string {
	want, relays := 0, 0
	_ = x.a.loop.Run(x.a.loop, func(context.Context) {
		for _, set := range x.a.localCandidates {
			for _, c := range set {
				want++
				if c.Type() == CandidateTypeRelay {
					want++
					relays++
				}
			}
		}
	})
	open := 0
	var names []string
	x.sw.mu.Lock()
	for _, c := range x.sw.all {
		if (c.owner == "A" || c.owner == "relay-alloc") && !c.isClosed() && c.local.Port() != 5353 {
			open++
			names = append(names, c.local.String())
		}
	}
	x.sw.mu.Unlock()
	if x.umux != nil {
		x.umux.mu.Lock()
		for _, h := range x.umux.handles {
			if h.closes.Load() == 0 {
				open++
				names = append(names, h.kind)
			}
		}
		x.umux.mu.Unlock()
	}
	if x.smux != nil {
		x.smux.mu.Lock()
		for _, h := range x.smux.handles {
			if h.closes.Load() == 0 {
				open++
				names = append(names, h.kind)
			}
		}
		x.smux.mu.Unlock()
	}
	if x.tmux != nil {
		x.tmux.mu.Lock()
		for _, h := range x.tmux.handles {
			if h.closes.Load() == 0 {
				open++
				names = append(names, h.kind)
			}
		}
		x.tmux.mu.Unlock()
	}
	openClients := 0
	if x.turn != nil {
		x.turn.mu.Lock()
		for _, c := range x.turn.clients {
			if c.closes.Load() == 0 {
				openClients++
			}
		}
		x.turn.mu.Unlock()
	}
	if open != want || openClients != relays {
		return fmt.Sprintf("after a completed gather cycle %d socket(s)/handle(s) are open (%v) and %d TURN client(s), but the listed candidates hold %d and %d: a rejected, failed or duplicate candidate kept its resource", open, names, openClients, want, relays)
	}

	return ""
}

func (x *vfC09Env) awaitCycles(r *vfResult) bool {
	for _, d := range x.dones {
		select {
		case <-d:
		case <-time.After(15 * time.Second):
			r.inconclusive(1)
			r.note("a gather cycle did not wind down (%v)", x.trace)

			return false
		}
	}

	return true
}

func vfC09Run(e *vfEnv, r *vfResult, idx int) { //nolint:cyclop,maintidx
	rng := e.rng(idx, "c09")
	x := &vfC09Env{sw: newVfSwitch()}
	x.kind = []string{"host", "host+srflx", "srflx", "srflx-2servers-same-mapped", "srflx-mapped", "relay", "udpmux", "tcpmux", "host+srflx+relay", "udpmux-srflx"}[rng.IntN(10)]
	nIP := 1 + rng.IntN(3)
	ips := []string{}
	for i := 0; i < nIP; i++ {
		ips = append(ips, fmt.Sprintf("10.0.%d.1", i))
	}
	stunTO := 30 * time.Millisecond
	cfg := &AgentConfig{
		Net: vfSimpleNet(x.sw, "A", ips...), NetworkTypes: []NetworkType{NetworkTypeUDP4}, MulticastDNSMode: MulticastDNSModeDisabled,
		LoggerFactory: vfQuietLogger(), STUNGatherTimeout: &stunTO,
	}
	if rng.IntN(5) == 0 {
		cfg.MulticastDNSMode = MulticastDNSModeQueryOnly
	}
	if rng.IntN(4) == 0 {
		cfg.IPFilter = func(net.IP) bool { return true } // switches the srflx/relay gatherers to per-address sockets
	}
	addServer := func(ip string) {
		s, err := newVfStunServer(x.sw, ip, 3478)
		if err == nil {
			x.srv = append(x.srv, s)
			uri, _ := stun.ParseURI("stun:" + ip + ":3478")
			cfg.Urls = append(cfg.Urls, uri)
		}
	}
	var opts []AgentOption
	// continual gathering: after the first pass a monitor goroutine re-runs the gatherers whenever a new interface
	// address appears; its sockets belong to the generation too
	continual := (x.kind == "host" || x.kind == "host+srflx") && rng.IntN(3) == 0
	if continual {
		opts = append(opts, WithContinualGatheringPolicy(GatherContinually), WithNetworkMonitorInterval(time.Millisecond))
	}
	switch x.kind {
	case "host":
		cfg.CandidateTypes = []CandidateType{CandidateTypeHost}
	case "host+srflx":
		cfg.CandidateTypes = []CandidateType{CandidateTypeHost, CandidateTypeServerReflexive}
		addServer("10.255.0.1")
	case "srflx":
		cfg.CandidateTypes = []CandidateType{CandidateTypeServerReflexive}
		addServer("10.255.0.1")
	case "srflx-2servers-same-mapped":
		cfg.CandidateTypes = []CandidateType{CandidateTypeServerReflexive}
		addServer("10.255.0.1")
		addServer("10.255.0.2")
	case "srflx-mapped":
		cfg.CandidateTypes = []CandidateType{CandidateTypeHost, CandidateTypeServerReflexive}
		ext := [][]string{
			{"203.0.113.5", "203.0.113.6"}, {"203.0.113.5"},
			{"fe80::77", "2001:db8:5::1"}, // a link-local external address (never publishable) listed first
			{"fe80::77"}, {"2001:db8:5::1", "fe80::77", "203.0.113.5"},
		}[rng.IntN(5)]
		if rng.IntN(2) == 0 {
			cfg.NetworkTypes = []NetworkType{NetworkTypeUDP4, NetworkTypeUDP6}
			cfg.Net = newVfNet(x.sw, "A", vfIface{Name: "eth0", IPs: append(append([]string{}, ips...), "2001:db8:aa::1")})
		}
		opts = append(opts, WithAddressRewriteRules(AddressRewriteRule{External: ext, AsCandidateType: CandidateTypeServerReflexive, Mode: AddressRewriteReplace}))
	case "relay", "host+srflx+relay":
		cfg.CandidateTypes = []CandidateType{CandidateTypeRelay}
		if x.kind != "relay" {
			cfg.CandidateTypes = []CandidateType{CandidateTypeHost, CandidateTypeServerReflexive, CandidateTypeRelay}
			addServer("10.255.0.1")
		}
		uri, _ := stun.ParseURI("turn:10.255.0.9:3478?transport=udp")
		uri.Username, uri.Password = "user", "pass"
		cfg.Urls = append(cfg.Urls, uri)
		x.turn = &vfTurnTally{sw: x.sw, relayIP: "198.51.100.77"}
		switch rng.IntN(5) {
		case 0:
			x.turn.failListen = true
		case 1:
			x.turn.failAlloc = true
		}
	case "udpmux":
		cfg.CandidateTypes = []CandidateType{CandidateTypeHost}
		mn := vfSimpleNet(x.sw, "mux", ips...)
		conn, err := mn.ListenUDP("udp", &net.UDPAddr{IP: net.ParseIP(ips[0]), Port: 7777})
		if err != nil {
			r.inconclusive(1)

			return
		}
		x.umux = &vfCountingUDPMux{UDPMuxDefault: NewUDPMuxDefault(UDPMuxParams{UDPConn: conn, Logger: vfQuietLogger().NewLogger("ice"), Net: mn})}
		cfg.UDPMux = x.umux
	case "udpmux-srflx":
		// server-reflexive candidates over ONE shared socket (UniversalUDPMuxDefault), one per STUN server
		cfg.CandidateTypes = []CandidateType{CandidateTypeServerReflexive}
		addServer("10.255.0.1")
		if rng.IntN(2) == 0 {
			addServer("10.255.0.2")
		}
		mn := vfSimpleNet(x.sw, "mux", ips...)
		conn, err := mn.ListenUDP("udp", &net.UDPAddr{IP: net.ParseIP(ips[0]), Port: 7778})
		if err != nil {
			r.inconclusive(1)

			return
		}
		x.smux = &vfCountingUniMux{UniversalUDPMuxDefault: NewUniversalUDPMuxDefault(UniversalUDPMuxParams{UDPConn: conn, Logger: vfQuietLogger().NewLogger("ice"), Net: mn, XORMappedAddrCacheTTL: time.Millisecond})}
		cfg.UDPMuxSrflx = x.smux
	case "tcpmux":
		cfg.CandidateTypes = []CandidateType{CandidateTypeHost}
		cfg.NetworkTypes = []NetworkType{NetworkTypeUDP4, NetworkTypeTCP4}
		x.tmux = &vfFakeTCPMux{addr: &net.TCPAddr{IP: net.IPv4zero, Port: 9999}}
		cfg.TCPMux = x.tmux
	}
	// fault: Close of a socket (the agent's own, or the relayed connection of a TURN allocation) reports an error
	switch rng.IntN(6) {
	case 0:
		x.sw.closeErr["relay-alloc"] = true
	case 1:
		x.sw.closeErr["A"] = true
	}
	// fault: the n-th socket the agent asks for cannot be opened
	if rng.IntN(4) == 0 {
		x.sw.failListen = map[int]bool{1 + rng.IntN(4) + len(x.srv): true}
	}
	a, err := newAgentFromConfig(cfg, opts...)
	if err != nil {
		r.count("c09_config_refused", 1)

		return
	}
	x.a = a
	if x.turn != nil {
		a.turnClientFactory = x.turn.factory
	}
	_ = a.OnCandidate(func(Candidate) {})
	defer func() {
		_ = a.Close()
		if x.umux != nil {
			_ = x.umux.UDPMuxDefault.Close()
		}
		if x.smux != nil {
			_ = x.smux.UniversalUDPMuxDefault.Close()
		}
	}()
	mapped := func(c int) netip.AddrPort {
		return netip.MustParseAddrPort(fmt.Sprintf("198.51.100.%d:%d", 10+c, 6000+c))
	}
	wit := func() map[string]any {
		return map[string]any{"idx": idx, "kind": x.kind, "ips": ips, "trace": x.trace, "ip_filter_set": cfg.IPFilter != nil, "listen_fault": fmt.Sprint(x.sw.failListen),
			"turn_faults": fmt.Sprintf("%+v", x.turn != nil && (x.turn.failListen || x.turn.failAlloc)), "close_error_fault": fmt.Sprint(x.sw.closeErr)}
	}
	nCycles := 1 + rng.IntN(3)
	final := []string{"close", "close", "graceful-close", "restart-then-close"}[rng.IntN(4)]
	for c := 0; c < nCycles; c++ {
		if err := a.GatherCandidates(); err != nil {
			x.trace = append(x.trace, fmt.Sprintf("gather#%d refused: %v", c, err))

			break
		}
		x.trace = append(x.trace, fmt.Sprintf("gather#%d", c))
		var done chan struct{}
		_ = a.loop.Run(a.loop, func(context.Context) { done = a.gatherCandidateDone })
		x.dones = append(x.dones, done)
		// collect the STUN queries of this cycle (if any)
		var reqs [][]*vfDgram
		if len(x.srv) > 0 {
			deadline := time.Now().Add(2 * time.Second)
			for time.Now().Before(deadline) {
				got := 0
				reqs = make([][]*vfDgram, len(x.srv))
				for i, s := range x.srv {
					reqs[i] = append(reqs[i], s.pump()...)
					got += len(reqs[i])
				}
				if got > 0 {
					time.Sleep(300 * time.Microsecond) // let the other gatherers of the cycle send theirs too
					for i, s := range x.srv {
						reqs[i] = append(reqs[i], s.pump()...)
					}

					break
				}
				select {
				case <-done:
					deadline = time.Now()
				default:
					time.Sleep(20 * time.Microsecond)
				}
			}
		}
		cut := []string{"reply-then-wait", "reply-then-wait", "cut-before-reply-late-reply", "cut-before-reply-no-reply", "no-reply-timeout", "cut-at-once"}[rng.IntN(6)]
		last := c == nCycles-1
		x.trace = append(x.trace, cut)
		replyAll := func() {
			for i, s := range x.srv {
				for _, q := range reqs[i] {
					m := mapped(c) // both servers report the same mapped address: the second candidate is a duplicate
					_, _ = s.reply(q, m)
				}
			}
		}
		cutNow := func() bool {
			if last {
				return false // the final action is applied after the loop
			}
			x.trace = append(x.trace, "restart")
			if err := a.Restart("", ""); err != nil {
				return false
			}

			return true
		}
		// waitPass waits for the end of the gathering pass.  With continual gathering the cycle itself only ends when it is
		// cancelled (it keeps monitoring), so the pass is taken to be over when nothing has been opened or
		// published for three STUN timeouts.
		waitPass := func() bool {
			if !continual {
				select {
				case <-done:
					return true
				case <-time.After(15 * time.Second):
					return false
				}
			}
			last, since := -1, time.Now()
			for dl := time.Now().Add(15 * time.Second); time.Now().Before(dl); time.Sleep(200 * time.Microsecond) {
				lc, err := a.GetLocalCandidates()
				if err != nil {
					return true
				}
				if n := len(lc) + len(x.sw.openSockets("A")); n != last {
					last, since = n, time.Now()
				} else if time.Since(since) > 3*stunTO { // nothing opened or published for three STUN timeouts
					return true
				}
			}

			return false
		}
		switch cut {
		case "reply-then-wait":
			replyAll()
			if !waitPass() {
				r.inconclusive(1)

				return
			}
			if continual {
				// a new interface comes up: the monitor regathers; sometimes the next action races that regathering
				newIP := fmt.Sprintf("10.0.%d.1", 100+c)
				if vn, ok := cfg.Net.(*vfNet); ok {
					vn.addInterface(fmt.Sprintf("eth9%d", c), newIP)
					x.trace = append(x.trace, "interface-up "+newIP)
					if rng.IntN(2) == 0 {
						for dl := time.Now().Add(2 * time.Second); time.Now().Before(dl); time.Sleep(50 * time.Microsecond) {
							found := false
							for _, oc := range x.sw.openSockets("A") {
								if oc.local.Addr().String() == newIP {
									found = true
								}
							}
							if found {
								x.trace = append(x.trace, "regathered")

								break
							}
						}
					}
				}
				r.count("c09_continual_gathering_runs", 1)
			} else if rng.IntN(3) == 0 {
				// continual gathering re-runs the local gatherer inside one cycle: candidates on a mux are duplicates and must be released at once
				x.trace = append(x.trace, "regather-local")
				a.gatherCandidatesLocal(context.Background(), a.networkTypes)
			}
			// quiescent point after a completed cycle: what is open is exactly what the listed candidates hold
			if msg := x.heldVsOpen(); msg != "" && !continual { // (with the monitor goroutine regathering there is no quiescent point here)
				r.violation("rejected-candidate-resource-kept:"+x.kind, msg, wit())

				return
			}
			if !last {
				cutNow()
			}
		case "cut-before-reply-late-reply":
			if cutNow() {
				replyAll() // the reply reaches a gatherer whose cycle was already cancelled
			} else {
				replyAll()
			}
		case "cut-before-reply-no-reply":
			cutNow()
		case "no-reply-timeout":
			if !waitPass() {
				r.inconclusive(1)

				return
			}
			if !last {
				cutNow()
			}
		case "cut-at-once":
			cutNow()
		}
		if !last {
			// quiescent point of the statement: Restart returned and the superseded gathering wound down
			if !x.awaitCycles(r) {
				return
			}
			r.eval(1)
			lk := x.leaks(false)
			if continual && len(lk) > 0 {
				// the monitor goroutine's own regathering pass is not covered by the cycle's done channel: give the
				// superseded gathering the bounded time the statement grants it ("once it has wound down")
				for dl := time.Now().Add(3 * time.Second); time.Now().Before(dl) && len(lk) > 0; time.Sleep(100 * time.Microsecond) {
					lk = x.leaks(false)
				}
				r.count("c09_continual_winddown_waits", 1)
			}
			if len(lk) > 0 {
				sig := "leak-after-restart:" + x.kind
				r.violation(sig, fmt.Sprintf("Restart returned and the superseded gather cycle wound down, but %d resource(s) of the ended generation are still open: %v", len(lk), lk), wit())

				return
			}
		}
	}
	switch final {
	case "close":
		x.trace = append(x.trace, "close")
		_ = a.Close()
	case "graceful-close":
		x.trace = append(x.trace, "graceful-close")
		_ = a.GracefulClose()
	default:
		x.trace = append(x.trace, "restart", "close")
		_ = a.Restart("", "")
		_ = a.Close()
	}
	if !x.awaitCycles(r) {
		return
	}
	// late STUN replies for queries of cycles that were cut
	for _, s := range x.srv {
		for _, q := range s.pump() {
			_, _ = s.reply(q, mapped(9))
		}
	}
	time.Sleep(100 * time.Microsecond)
	r.eval(1)
	if lk := x.leaks(true); len(lk) > 0 {
		r.violation("leak-after-close:"+x.kind, fmt.Sprintf("Close returned and every gather cycle wound down, but %d resource(s) are still open: %v", len(lk), lk), wit())
	}
	x.sw.mu.Lock()
	nSock, multi := 0, 0
	for _, c := range x.sw.all {
		if c.owner == "A" || c.owner == "relay-alloc" {
			nSock++
			if c.closes.Load() > 1 {
				multi++
			}
		}
	}
	x.sw.mu.Unlock()
	r.count("c09_sockets_opened", int64(nSock))
	r.count("c09_sockets_closed_more_than_once", int64(multi))
	if x.turn != nil {
		r.count("c09_turn_clients", int64(len(x.turn.clients)))
	}
	if x.smux != nil {
		x.smux.mu.Lock()
		r.count("c09_srflx_mux_handles", int64(len(x.smux.handles)))
		x.smux.mu.Unlock()
	}
	r.distinct(fmt.Sprintf("c09/%s/ips%d/cycles%d/%v/final=%s/filter=%v/fault=%v", x.kind, nIP, nCycles, x.trace, final, cfg.IPFilter != nil, len(x.sw.failListen) > 0))
	if idx < 4 {
		w := wit()
		w["sockets_opened"] = nSock
		r.sample(w)
	}
}

// vfC09ActiveTCP: the TCP connections behind active ICE-TCP candidates (opened towards a remote passive candidate, over
// the real loopback interface) are closed when their candidate goes away: the listener side must see every accepted
// connection end after Restart / Close, and the process must hold no more descriptors than before.
func vfC09ActiveTCP(e *vfEnv, r *vfResult, idx int) { //nolint:cyclop
	rng := e.rng(idx, "c09activetcp")
	fdBefore := vfFDCount()
	ln, err := net.Listen("tcp4", "127.0.0.1:0")
	if err != nil {
		r.inconclusive(1)

		return
	}
	var mu sync.Mutex
	accepted, ended := 0, 0
	var awg sync.WaitGroup
	awg.Add(1)
	go func() {
		defer awg.Done()
		for {
			c, err := ln.Accept()
			if err != nil {
				return
			}
			mu.Lock()
			accepted++
			mu.Unlock()
			awg.Add(1)
			go func() {
				defer awg.Done()
				buf := make([]byte, 2048)
				_ = c.SetReadDeadline(time.Now().Add(30 * time.Second))
				for {
					if _, err := c.Read(buf); err != nil {
						break
					}
				}
				_ = c.Close()
				mu.Lock()
				ended++
				mu.Unlock()
			}()
		}
	}()
	a, err := NewAgent(&AgentConfig{CandidateTypes: []CandidateType{CandidateTypeHost}, NetworkTypes: []NetworkType{NetworkTypeUDP4, NetworkTypeTCP4}, IncludeLoopback: true,
		InterfaceFilter: func(n string) bool { return n == "lo" }, MulticastDNSMode: MulticastDNSModeDisabled, LoggerFactory: vfQuietLogger()})
	if err != nil {
		_ = ln.Close()
		r.inconclusive(1)

		return
	}
	_ = a.OnCandidate(func(Candidate) {})
	if rng.IntN(2) == 0 {
		_ = a.GatherCandidates()
	}
	port := ln.Addr().(*net.TCPAddr).Port //nolint:forcetypeassert
	addPassive := func() {
		if rc, err := NewCandidateHost(&CandidateHostConfig{Network: "tcp", Address: "127.0.0.1", Port: port, Component: 1, TCPType: TCPTypePassive, Priority: uint32(1000 + rng.IntN(100000))}); err == nil { //nolint:gosec
			_ = a.AddRemoteCandidate(rc)
		}
	}
	waitAccepted := func(n int) {
		for dl := time.Now().Add(3 * time.Second); time.Now().Before(dl); time.Sleep(100 * time.Microsecond) {
			mu.Lock()
			ok := accepted >= n
			mu.Unlock()
			if ok {
				return
			}
		}
	}
	addPassive()
	if rng.IntN(2) == 0 {
		t0 := time.Now()
		waitAccepted(1) // otherwise the teardown races the dial
		r.count("c09_active_tcp_wait_first_ms", time.Since(t0).Milliseconds())
		mu.Lock()
		if accepted == 0 {
			r.count("c09_active_tcp_no_connection_within_3s", 1)
		}
		mu.Unlock()
	}
	script := []string{"close", "restart-close", "restart-add-close", "graceful"}[rng.IntN(4)]
	tClose := time.Now()
	defer func() { r.count("c09_active_tcp_teardown_ms:"+script, time.Since(tClose).Milliseconds()) }()
	switch script {
	case "close":
		_ = a.Close()
	case "graceful":
		_ = a.GracefulClose()
	case "restart-close":
		_ = a.Restart("", "")
		_ = a.Close()
	case "restart-add-close":
		_ = a.Restart("", "")
		mu.Lock()
		before := accepted
		mu.Unlock()
		addPassive()
		if rng.IntN(2) == 0 {
			waitAccepted(before + 1)
		}
		_ = a.Close()
	}
	r.eval(1)
	// every connection the listener accepted must end (the agent closed its side)
	okEnd := false
	var acc, end int
	for dl := time.Now().Add(10 * time.Second); time.Now().Before(dl); time.Sleep(200 * time.Microsecond) {
		mu.Lock()
		acc, end = accepted, ended
		mu.Unlock()
		if acc == end {
			// a dial that was in flight at Close may still land: settle
			time.Sleep(2 * time.Millisecond)
			mu.Lock()
			okEnd = accepted == ended
			mu.Unlock()
			if okEnd {
				break
			}
		}
	}
	wit := map[string]any{"idx": idx, "script": script, "accepted": acc, "ended": end}
	if !okEnd {
		r.violation("active-tcp-connection-left-open:"+script, fmt.Sprintf("%s: the remote listener accepted %d connection(s) from active TCP candidates; 10 s after the agent was closed only %d had ended", script, acc, end), wit)
	}
	_ = ln.Close()
	awg.Wait()
	runtime.GC()
	fdAfter := vfFDCount()
	for i := 0; i < 400 && fdAfter > fdBefore; i++ {
		time.Sleep(5 * time.Millisecond)
		fdAfter = vfFDCount()
	}
	if okEnd && fdBefore >= 0 && fdAfter > fdBefore {
		r.violation("active-tcp-fd-leak:"+script, fmt.Sprintf("%s: %d file descriptors before, %d after the agent was closed", script, fdBefore, fdAfter), wit)
	}
	if acc > 0 {
		r.count("c09_active_tcp_connections_seen", int64(acc))
	}
	r.distinct(fmt.Sprintf("activetcp/%s/accepted=%d", script, acc))
}

// vfC09ContinualClose: directed schedule for continual gathering.  A new interface address appears, the monitor
// goroutine starts regathering and is parked inside its first socket open; Close is called meanwhile.  Close must not
// return while that gathering is still under way: no socket of the agent may be opened after Close has returned.
func vfC09ContinualClose(e *vfEnv, r *vfResult, idx int) {
	rng := e.rng(idx, "c09continual")
	sw := newVfSwitch()
	nIP := 1 + rng.IntN(3)
	ips := []string{}
	for i := 0; i < nIP; i++ {
		ips = append(ips, fmt.Sprintf("10.0.%d.1", i))
	}
	vn := vfSimpleNet(sw, "A", ips...)
	a, err := newAgentFromConfig(&AgentConfig{Net: vn, NetworkTypes: []NetworkType{NetworkTypeUDP4}, CandidateTypes: []CandidateType{CandidateTypeHost},
		MulticastDNSMode: MulticastDNSModeDisabled, LoggerFactory: vfQuietLogger()},
		WithContinualGatheringPolicy(GatherContinually), WithNetworkMonitorInterval(time.Millisecond))
	if err != nil {
		r.inconclusive(1)

		return
	}
	_ = a.OnCandidate(func(Candidate) {})
	if err := a.GatherCandidates(); err != nil {
		_ = a.Close()
		r.inconclusive(1)

		return
	}
	// first pass: every address has its host candidate
	for dl := time.Now().Add(10 * time.Second); time.Now().Before(dl); time.Sleep(100 * time.Microsecond) {
		if lc, err := a.GetLocalCandidates(); err == nil && len(lc) >= nIP {
			break
		}
	}
	gate := make(chan struct{})
	sw.mu.Lock()
	sw.parkOwner, sw.parkGate = "A", gate
	sw.mu.Unlock()
	vn.addInterface("eth9", "10.0.200.1")
	parked := false
	for dl := time.Now().Add(3 * time.Second); time.Now().Before(dl); time.Sleep(50 * time.Microsecond) {
		if sw.parked.Load() > 0 {
			parked = true

			break
		}
	}
	final := []string{"close", "graceful-close", "restart-close"}[rng.IntN(3)]
	closed := make(chan int64, 1)
	go func() {
		switch final {
		case "close":
			_ = a.Close()
		case "graceful-close":
			_ = a.GracefulClose()
		default:
			_ = a.Restart("", "")
			_ = a.Close()
		}
		closed <- sw.seq.Add(1) // "Close returned" in the switch's event order
	}()
	// observation window: does Close return while the monitor's gathering is parked?
	var closeSeq int64 = -1
	select {
	case closeSeq = <-closed:
	case <-time.After(30 * time.Millisecond):
	}
	sw.mu.Lock()
	sw.parkGate = nil
	sw.mu.Unlock()
	close(gate)
	if closeSeq < 0 {
		select {
		case closeSeq = <-closed:
		case <-time.After(30 * time.Second):
			r.violation("close-stuck-with-continual-gathering", fmt.Sprintf("history %d: %s did not return within 30 s after the parked gatherer was released", idx, final), map[string]any{"idx": idx, "stacks": vfStacks()})

			return
		}
	}
	// let the released gatherer finish (bounded), then look at the order of events
	for dl := time.Now().Add(2 * time.Second); time.Now().Before(dl) && strings.Contains(vfStacks(), "(*Agent).gatherCandidatesLocal"); time.Sleep(100 * time.Microsecond) {
	}
	r.eval(1)
	if !parked {
		r.count("c09_continual_close_not_parked", 1)
	}
	var late []string
	sw.mu.Lock()
	for _, c := range sw.all {
		if c.owner == "A" && c.createdSeq > closeSeq {
			late = append(late, c.local.String())
		}
	}
	sw.mu.Unlock()
	wit := map[string]any{"idx": idx, "final": final, "gatherer_parked_before_close": parked, "addresses": ips}
	if len(late) > 0 {
		r.violation("socket-opened-after-close-returned:continual-gathering", fmt.Sprintf("history %d: %s returned while the continual-gathering monitor was still gathering: %d socket(s) %v were opened after it had returned", idx, final, len(late), late), wit)
	}
	var open []string
	for dl := time.Now().Add(2 * time.Second); ; time.Sleep(100 * time.Microsecond) {
		open = open[:0]
		for _, c := range sw.openSockets("A") {
			open = append(open, c.local.String())
		}
		if len(open) == 0 || time.Now().After(dl) {
			break
		}
	}
	if len(open) > 0 {
		r.violation("leak-after-close:continual-gathering", fmt.Sprintf("history %d: sockets still open 2 s after %s: %v", idx, final, open), wit)
	}
	r.distinct(fmt.Sprintf("continual-close/%s/ips%d/parked=%v", final, nIP, parked))
}

// vfC09CancelledAdd: directed schedule (hook H2) for "released immediately if gathering is cancelled".  The gatherer has
// opened a socket and is handing its candidate to the task loop (parked at taskloop.Run.beforeSelect, only the goroutine
// that comes from addCandidate); Restart cancels the cycle; the gatherer is released.  Whether its task is refused or
// still runs, the candidate of the cancelled cycle must not be listed and its socket must be closed.
func vfC09CancelledAdd(e *vfEnv, r *vfResult, idx int) {
	rng := e.rng(idx, "c09cancelledadd")
	sw := newVfSwitch()
	nIP := 1 + rng.IntN(3)
	ips := []string{}
	for i := 0; i < nIP; i++ {
		ips = append(ips, fmt.Sprintf("10.0.%d.1", i))
	}
	a, err := newAgentFromConfig(&AgentConfig{Net: vfSimpleNet(sw, "A", ips...), NetworkTypes: []NetworkType{NetworkTypeUDP4}, CandidateTypes: []CandidateType{CandidateTypeHost},
		MulticastDNSMode: MulticastDNSModeDisabled, LoggerFactory: vfQuietLogger()})
	if err != nil {
		r.inconclusive(1)

		return
	}
	defer a.Close() //nolint:errcheck
	_ = a.OnCandidate(func(Candidate) {})
	gate := make(chan struct{})
	var parked atomic.Int32
	var once sync.Once
	verifhook.SetYield(func(site string) {
		if site != "taskloop.Run.beforeSelect" {
			return
		}
		buf := make([]byte, 4096)
		if !strings.Contains(string(buf[:runtime.Stack(buf, false)]), "(*Agent).addCandidate(") {
			return
		}
		first := false
		once.Do(func() { first = true })
		if !first {
			return
		}
		parked.Add(1)
		select {
		case <-gate:
		case <-time.After(5 * time.Second):
		}
	})
	defer verifhook.SetYield(nil)
	if err := a.GatherCandidates(); err != nil {
		r.inconclusive(1)

		return
	}
	var done chan struct{}
	_ = a.loop.Run(a.loop, func(context.Context) { done = a.gatherCandidateDone })
	for dl := time.Now().Add(3 * time.Second); parked.Load() == 0 && time.Now().Before(dl); time.Sleep(20 * time.Microsecond) {
	}
	if parked.Load() == 0 {
		close(gate)
		r.inconclusive(1)

		return
	}
	_ = a.Restart("", "") // cancels the cycle whose first candidate is on its way to the loop
	close(gate)
	select {
	case <-done:
	case <-time.After(10 * time.Second):
		r.inconclusive(1)

		return
	}
	r.eval(1)
	var open []string
	for dl := time.Now().Add(2 * time.Second); ; time.Sleep(100 * time.Microsecond) {
		open = open[:0]
		for _, c := range sw.openSockets("A") {
			open = append(open, c.local.String())
		}
		if len(open) == 0 || time.Now().After(dl) {
			break
		}
	}
	lc, _ := a.GetLocalCandidates()
	wit := map[string]any{"idx": idx, "addresses": ips, "listed_candidates": len(lc), "open_sockets": open}
	if len(lc) > 0 {
		r.violation("cancelled-cycle-candidate-listed", fmt.Sprintf("history %d: Restart cancelled the cycle while its first candidate was being handed to the loop; %d candidate(s) of that cycle are listed in the new generation", idx, len(lc)), wit)
	}
	if len(open) > 0 {
		r.violation("leak-after-restart:cancelled-add", fmt.Sprintf("history %d: Restart cancelled the cycle while its first candidate was being handed to the loop; the cycle wound down, no candidate is listed, but socket(s) %v are still open", idx, open), wit)
	}
	r.distinct(fmt.Sprintf("cancelledadd/ips%d", nIP))
}

func TestVerifC09(t *testing.T) {
	vfRun(t, "C09", func(e *vfEnv, r *vfResult) {
		n := e.n(1600, 60000)
		for i := 0; i < n; i++ {
			if e.only >= 0 && i != e.only {
				continue
			}
			vfC09Run(e, r, i)
		}
		// warm-up of the runtime's own descriptors (poller) before the fd census
		if ln, err := net.Listen("tcp4", "127.0.0.1:0"); err == nil {
			if c, err := net.Dial("tcp4", ln.Addr().String()); err == nil {
				_ = c.Close()
			}
			_ = ln.Close()
		}
		for i := 0; i < e.n(60, 2400); i++ {
			vfC09ActiveTCP(e, r, i)
		}
		for i := 0; i < e.n(60, 2400); i++ {
			vfC09ContinualClose(e, r, i)
		}
		for i := 0; i < e.n(120, 4800); i++ {
			vfC09CancelledAdd(e, r, i)
		}
	})
}
