//go:build verif

package ice

// C12: the UDP mux delivers each datagram to the right connection and to no other.
// Sequential mode: random operation sequences on the real UDPMuxDefault over a fake shared
// socket, compared step by step with a reference routing table (exact). Concurrent mode
// (race detector): writers, an inbound feeder, removers and closers run concurrently and a
// schedule-independent oracle is applied to what every connection read.

import (
	"errors"
	"fmt"
	"io"
	"math/rand/v2"
	"net"
	"net/netip"
	"os"
	"sort"
	"strings"
	"sync"
	"sync/atomic"
	"testing"
	"time"

	"github.com/pion/stun/v3"
)

// ---------------------------------------------------------------- fake shared socket

type vfMuxPkt struct {
	data []byte
	src  *net.UDPAddr
}

type vfMuxWrite struct {
	data []byte
	dst  string
}

type vfMuxSock struct {
	local    *net.UDPAddr
	in       chan vfMuxPkt
	closed   chan struct{}
	once     sync.Once
	waiting  atomic.Int64
	mu       sync.Mutex
	writes   []vfMuxWrite
	closes   int
	wdl      []time.Time // every SetWriteDeadline value
	blockW   bool        // WriteTo blocks until a write deadline <= now is set (C13)
	failWDL  bool        // SetWriteDeadline fails
	wdlCh    chan struct{}
	curWDL   time.Time
	blockedW atomic.Int32
}

func newVfMuxSock(local string) *vfMuxSock {
	ap := netip.MustParseAddrPort(local)

	return &vfMuxSock{local: net.UDPAddrFromAddrPort(ap), in: make(chan vfMuxPkt), closed: make(chan struct{}), wdlCh: make(chan struct{})}
}

func (s *vfMuxSock) ReadFrom(p []byte) (int, net.Addr, error) {
	s.waiting.Add(1)
	select {
	case pk := <-s.in:
		return copy(p, pk.data), pk.src, nil
	case <-s.closed:
		return 0, nil, io.EOF
	}
}

func (s *vfMuxSock) WriteTo(p []byte, addr net.Addr) (int, error) {
	select {
	case <-s.closed:
		return 0, net.ErrClosed
	default:
	}
	counted := false
	for {
		s.mu.Lock()
		dl, ch, blocking := s.curWDL, s.wdlCh, s.blockW
		if !dl.IsZero() && !time.Now().Before(dl) {
			s.mu.Unlock()
			if counted {
				s.blockedW.Add(-1)
			}

			return 0, os.ErrDeadlineExceeded // also: a deadline left in the past makes every later write fail, like a real socket
		}
		if !blocking {
			s.writes = append(s.writes, vfMuxWrite{append([]byte{}, p...), addr.String()})
			s.mu.Unlock()
			if counted {
				s.blockedW.Add(-1)
			}

			return len(p), nil
		}
		s.mu.Unlock()
		if !counted {
			counted = true
			s.blockedW.Add(1)
		}
		var tm <-chan time.Time
		var t *time.Timer
		if !dl.IsZero() {
			t = time.NewTimer(time.Until(dl))
			tm = t.C
		}
		select {
		case <-ch:
		case <-tm:
		case <-s.closed:
			if t != nil {
				t.Stop()
			}
			s.blockedW.Add(-1)

			return 0, net.ErrClosed
		}
		if t != nil {
			t.Stop()
		}
	}
}

// setBlocking switches between "writes block until a write deadline fires" and "writes succeed at once".
func (s *vfMuxSock) setBlocking(b bool) {
	s.mu.Lock()
	s.blockW = b
	close(s.wdlCh)
	s.wdlCh = make(chan struct{})
	s.mu.Unlock()
}

func (s *vfMuxSock) setFailWDL(b bool) {
	s.mu.Lock()
	s.failWDL = b
	s.mu.Unlock()
}

func (s *vfMuxSock) Close() error {
	s.mu.Lock()
	s.closes++
	s.mu.Unlock()
	s.once.Do(func() { close(s.closed) })

	return nil
}
func (s *vfMuxSock) LocalAddr() net.Addr             { return s.local }
func (s *vfMuxSock) SetDeadline(time.Time) error     { return nil }
func (s *vfMuxSock) SetReadDeadline(time.Time) error { return nil }
func (s *vfMuxSock) SetWriteDeadline(t time.Time) error {
	s.mu.Lock()
	defer s.mu.Unlock()
	if s.failWDL {
		return errors.New("vfMuxSock: injected SetWriteDeadline failure")
	}
	s.wdl = append(s.wdl, t)
	s.curWDL = t
	close(s.wdlCh)
	s.wdlCh = make(chan struct{})

	return nil
}

// vfMuxSockAP additionally offers the allocation-free netip.AddrPort I/O, so the mux hands out sharedAddrPortConn.
type vfMuxSockAP struct{ *vfMuxSock }

func (s vfMuxSockAP) ReadFromAddrPort(p []byte) (int, netip.AddrPort, error) {
	n, a, err := s.vfMuxSock.ReadFrom(p)
	if err != nil {
		return n, netip.AddrPort{}, err
	}

	return n, a.(*net.UDPAddr).AddrPort(), nil //nolint:forcetypeassert
}

func (s vfMuxSockAP) WriteToAddrPort(p []byte, ap netip.AddrPort) (int, error) {
	return s.vfMuxSock.WriteTo(p, net.UDPAddrFromAddrPort(ap))
}

// feed hands one inbound datagram to the mux worker and waits until the worker is back in ReadFrom.
func (s *vfMuxSock) feed(data []byte, src *net.UDPAddr) bool {
	before := s.waiting.Load()
	if before == 0 {
		deadline := time.Now().Add(5 * time.Second)
		for s.waiting.Load() == 0 && time.Now().Before(deadline) {
			time.Sleep(5 * time.Microsecond)
		}
		before = s.waiting.Load()
	}
	select {
	case s.in <- vfMuxPkt{append([]byte{}, data...), src}:
	case <-s.closed:
		return false
	case <-time.After(5 * time.Second):
		return false
	}
	deadline := time.Now().Add(10 * time.Second)
	for s.waiting.Load() == before {
		select {
		case <-s.closed:
			return true
		default:
		}
		if time.Now().After(deadline) {
			return false
		}
		time.Sleep(2 * time.Microsecond)
	}

	return true
}

// ---------------------------------------------------------------- reference model

type vfMConn struct {
	id      int
	ufrag   string
	v6      bool
	dead    bool // removed or closed: receives nothing, owns no address
	handles int
	queue   []vfMuxPkt
	real    *udpMuxedConn
}

type vfMuxModel struct {
	conns  map[string]*vfMConn // key ufrag|family
	addr   map[netip.AddrPort]*vfMConn
	all    []*vfMConn
	closed bool
}

func vfMKey(ufrag string, v6 bool) string { return fmt.Sprintf("%s|%v", ufrag, v6) }

func (m *vfMuxModel) kill(c *vfMConn) {
	c.dead = true
	c.queue = nil
	for a, o := range m.addr {
		if o == c {
			delete(m.addr, a)
		}
	}
}

func vfStunWithUser(rng *rand.Rand, user *string) []byte {
	setters := []stun.Setter{stun.BindingRequest, stun.TransactionID}
	if user != nil {
		setters = append(setters, stun.NewUsername(*user))
	}
	setters = append(setters, PriorityAttr(rng.Uint32()))
	m, err := stun.Build(setters...)
	if err != nil {
		panic(err)
	}

	return m.Raw
}

var vfMuxSrcPool = []string{ //nolint:gochecknoglobals
	"1.2.3.4:5000", "1.2.3.4:5001", "9.9.9.9:5000", "[::ffff:1.2.3.4]:5000", "[2001:db8::1]:6000", "[2001:db8::2]:6000", "[fe80::1%eth0]:7000", "[::ffff:9.9.9.9]:5000",
	"169.254.7.7:5000", "[::ffff:169.254.7.7]:5000", // IPv4 link-local, plain and as a dual-stack socket reports it
}

func vfUDPAddr(s string) *net.UDPAddr {
	ap := netip.MustParseAddrPort(s)

	return &net.UDPAddr{IP: ap.Addr().AsSlice(), Port: int(ap.Port()), Zone: ap.Addr().Zone()}
}

type vfMuxHandle struct {
	pc     net.PacketConn
	mc     *vfMConn
	closed bool
}

func vfC12Sequential(e *vfEnv, r *vfResult, idx int) { //nolint:cyclop,maintidx
	rng := e.rng(idx, "muxseq")
	unspecified := rng.IntN(3) == 0
	local := "10.0.0.9:7000"
	if unspecified {
		local = "0.0.0.0:7000"
	}
	sock := newVfMuxSock(local)
	var under net.PacketConn = sock
	addrPort := rng.IntN(2) == 0
	if addrPort {
		under = vfMuxSockAP{sock}
	}
	params := UDPMuxParams{UDPConn: under, Logger: vfQuietLogger().NewLogger("ice")}
	if unspecified {
		params.Net = vfSimpleNet(newVfSwitch(), "M", "10.0.0.9", "fd00::9")
	}
	// one history in three runs the same operations through UniversalUDPMuxDefault, whose socket wrapper looks at every
	// inbound STUN message (XOR-MAPPED-ADDRESS responses of known STUN servers) before the embedded mux routes it
	universal := rng.IntN(3) == 0
	var mux *UDPMuxDefault
	if universal {
		uni := NewUniversalUDPMuxDefault(UniversalUDPMuxParams{UDPConn: under, Logger: params.Logger, Net: params.Net})
		mux = uni.UDPMuxDefault
		// the mux has asked one or two of the peers' addresses for its mapped address (server-reflexive gathering): a
		// peer that shares its transport address with a STUN server must still reach the connection that wrote to it
		for k := rng.IntN(3); k > 0; k-- {
			_, _ = uni.GetXORMappedAddr(vfUDPAddr(vfMuxSrcPool[rng.IntN(len(vfMuxSrcPool))]), 200*time.Microsecond)
		}
	} else {
		mux = NewUDPMuxDefault(params)
	}
	model := &vfMuxModel{conns: map[string]*vfMConn{}, addr: map[netip.AddrPort]*vfMConn{}}
	ufrags := []string{"uA", "uB", "uAx", ""}[:2+rng.IntN(3)]
	var handles []*vfMuxHandle
	var trace []string
	nOps := 20 + rng.IntN(60)
	viol := func(sig, msg string) {
		r.violation(sig, msg, map[string]any{"idx": idx, "unspecified_mux": unspecified, "addrport_io": addrPort, "universal_wrapper": universal, "ops": trace})
	}
	realOf := func(pc net.PacketConn) *udpMuxedConn {
		switch v := pc.(type) {
		case *sharedAddrPortConn:
			return v.underlying.(*udpMuxedConn) //nolint:forcetypeassert
		case *sharedPacketConn:
			return v.underlying.(*udpMuxedConn) //nolint:forcetypeassert
		}

		return nil
	}
	awaitWatcher := func(mc *vfMConn) {
		// the close-watcher goroutine unregisters the ufrag asynchronously: wait until the real maps no longer hold this conn
		deadline := time.Now().Add(5 * time.Second)
		for time.Now().Before(deadline) {
			mux.mu.Lock()
			m := mux.connsIPv4
			if mc.v6 {
				m = mux.connsIPv6
			}
			cur := m[mc.ufrag]
			mux.mu.Unlock()
			bound := false
			mux.addressMapMu.Lock()
			for _, c := range mux.addressMap {
				if c == mc.real {
					bound = true
				}
			}
			mux.addressMapMu.Unlock()
			if cur != mc.real && !bound {
				return
			}
			time.Sleep(5 * time.Microsecond)
		}
	}
	checkQueues := func(after string) bool {
		ok := true
		for _, mc := range model.all {
			if mc.real == nil {
				continue
			}
			// drain what the real connection queued, through any open handle (or in-package when none is open)
			var got []vfMuxPkt
			for {
				mc.real.mu.Lock()
				has := mc.real.bufTail != nil
				mc.real.mu.Unlock()
				if !has {
					break
				}
				buf := make([]byte, 9000)
				n, a, err := mc.real.ReadFrom(buf)
				if err != nil {
					break
				}
				ua, _ := a.(*net.UDPAddr)
				got = append(got, vfMuxPkt{append([]byte{}, buf[:n]...), ua})
			}
			want := mc.queue
			mc.queue = nil
			if len(got) != len(want) {
				sig := "mux-misrouted"
				if mc.dead {
					sig = "mux-traffic-after-removal"
				}
				viol(sig, fmt.Sprintf("after %s: connection #%d (ufrag %q, v6=%v, dead=%v) received %d datagram(s), the routing table says %d", after, mc.id, mc.ufrag, mc.v6, mc.dead, len(got), len(want)))
				ok = false

				continue
			}
			for i := range got {
				if string(got[i].data) != string(want[i].data) {
					viol("mux-altered-or-reordered", fmt.Sprintf("after %s: connection #%d datagram %d differs from what arrived (order or contents)", after, mc.id, i))
					ok = false
				} else if got[i].src == nil || vfRefCanonAP(got[i].src.AddrPort()) != vfRefCanonAP(want[i].src.AddrPort()) {
					viol("mux-wrong-source", fmt.Sprintf("after %s: connection #%d datagram %d carries source %v, true source %v", after, mc.id, i, got[i].src, want[i].src))
					ok = false
				}
			}
		}

		return ok
	}
	checkBindings := func(after string) bool {
		mux.addressMapMu.Lock()
		real := map[netip.AddrPort]*udpMuxedConn{}
		for a, c := range mux.addressMap {
			real[a] = c
		}
		mux.addressMapMu.Unlock()
		for a, c := range real {
			mc := model.addr[a]
			if mc == nil || mc.real != c {
				sig := "mux-stale-address-binding"
				viol(sig, fmt.Sprintf("after %s: the mux binds %s to a connection, the routing table says %v", after, a, mc != nil))

				return false
			}
		}
		for a, mc := range model.addr {
			if real[a] != mc.real {
				viol("mux-missing-address-binding", fmt.Sprintf("after %s: %s should be bound to connection #%d", after, a, mc.id))

				return false
			}
		}

		return true
	}
	lazyReader := rng.IntN(2) == 0
	for op := 0; op < nOps; op++ {
		desc := ""
		switch k := rng.IntN(16); {
		case k <= 2: // GetConn
			uf := ufrags[rng.IntN(len(ufrags))]
			var addr net.Addr = sock.local
			v6 := false
			if unspecified && rng.IntN(2) == 0 {
				addr, v6 = &net.UDPAddr{IP: net.ParseIP("fd00::9"), Port: 7000}, true
			} else if unspecified {
				addr = &net.UDPAddr{IP: net.ParseIP("10.0.0.9"), Port: 7000}
			} else if rng.IntN(10) == 0 {
				addr = &net.UDPAddr{IP: net.ParseIP("10.0.0.10"), Port: 7000} // not the mux address: must be refused
			}
			desc = fmt.Sprintf("GetConn(%q,%s)", uf, addr)
			trace = append(trace, desc)
			pc, err := mux.GetConn(uf, addr)
			wantErr := model.closed || (!unspecified && addr.String() != sock.local.String())
			if (err != nil) != wantErr {
				viol("mux-getconn-error", fmt.Sprintf("%s: err=%v, expected error=%v", desc, err, wantErr))
			}
			if err != nil || pc == nil {
				continue
			}
			mc := model.conns[vfMKey(uf, v6)]
			if mc == nil || mc.dead {
				mc = &vfMConn{id: len(model.all) + 1, ufrag: uf, v6: v6}
				model.conns[vfMKey(uf, v6)] = mc
				model.all = append(model.all, mc)
			}
			rc := realOf(pc)
			if mc.real == nil {
				mc.real = rc
			} else if mc.real != rc {
				viol("mux-getconn-identity", fmt.Sprintf("%s returned a different underlying connection than the one registered for this ufrag/family", desc))
				mc.real = rc
			}
			mc.handles++
			handles = append(handles, &vfMuxHandle{pc: pc, mc: mc})
		case k <= 5 && len(handles) > 0: // WriteTo
			h := handles[rng.IntN(len(handles))]
			dst := vfMuxSrcPool[rng.IntN(len(vfMuxSrcPool))]
			payload := []byte(fmt.Sprintf("\x90w-%d-%d", idx, op))
			desc = fmt.Sprintf("handle#%d(conn#%d).WriteTo(%s)", handleIndex(handles, h), h.mc.id, dst)
			trace = append(trace, desc)
			sock.mu.Lock()
			nw := len(sock.writes)
			sock.mu.Unlock()
			n, err := h.pc.WriteTo(payload, vfUDPAddr(dst))
			wantOK := !h.closed && !h.mc.dead && !model.closed
			// a write on a connection that was removed (but whose handle is still open) may fail or succeed;
			// what the property demands is that it does not re-create an address binding (checked below)
			if wantOK != (err == nil) && !(h.mc.dead && !h.closed && !model.closed) {
				viol("mux-write-result", fmt.Sprintf("%s: n=%d err=%v, expected success=%v (handle closed=%v, connection removed/closed=%v)", desc, n, err, wantOK, h.closed, h.mc.dead))
			}
			if err == nil {
				ca := vfRefCanonAP(netip.MustParseAddrPort(dst))
				if !h.mc.dead {
					model.addr[ca] = h.mc
				}
				sock.mu.Lock()
				if !h.mc.dead && (len(sock.writes) != nw+1 || string(sock.writes[nw].data) != string(payload)) {
					viol("mux-write-not-forwarded", fmt.Sprintf("%s: the shared socket saw %d new write(s)", desc, len(sock.writes)-nw))
				}
				sock.mu.Unlock()
			}
		case k <= 10: // inbound
			src := vfMuxSrcPool[rng.IntN(len(vfMuxSrcPool))]
			ca := vfRefCanonAP(netip.MustParseAddrPort(src))
			var data []byte
			kind := ""
			var routeUfrag *string
			switch rng.IntN(7) {
			case 6: // a success response carrying XOR-MAPPED-ADDRESS (what a STUN server sends): routed by address binding only
				if m, err := stun.Build(stun.BindingSuccess, stun.TransactionID, &stun.XORMappedAddress{IP: net.IPv4(198, 51, 100, 7), Port: 1000 + rng.IntN(1000)}); err == nil {
					data, kind = m.Raw, "stun-xor-mapped-response"
				} else {
					data, kind = []byte("\x90fallback"), "data"
				}
			case 0:
				data, kind = []byte(fmt.Sprintf("\x90in-%d-%d", idx, op)), "data"
			case 1:
				data, kind = vfStunWithUser(rng, nil), "stun-no-username"
			case 2:
				data = vfStunWithUser(rng, nil)
				data[3] ^= 0x01 // length no longer matches: undecodable
				kind = "stun-undecodable"
			default:
				uf := ufrags[rng.IntN(len(ufrags))]
				user := []string{uf + ":remote", uf, uf + ":", "zz" + uf + ":remote", "remote:" + uf, uf + ":re:mote", uf + "::x:"}[rng.IntN(7)] // the local ufrag ends at the FIRST colon
				data, kind = vfStunWithUser(rng, &user), "stun-user="+user
				ru := strings.Split(user, ":")[0]
				routeUfrag = &ru
			}
			desc = fmt.Sprintf("inbound(%s from %s)", kind, src)
			trace = append(trace, desc)
			var dest *vfMConn
			if mc := model.addr[ca]; mc != nil {
				dest = mc
			} else if routeUfrag != nil {
				dest = model.conns[vfMKey(*routeUfrag, ca.Addr().Is6())]
			}
			if dest != nil && !dest.dead && !model.closed {
				dest.queue = append(dest.queue, vfMuxPkt{data, vfUDPAddr(src)})
			}
			if !sock.feed(data, vfUDPAddr(src)) && !model.closed {
				r.inconclusive(1)
				r.note("mux worker did not return to ReadFrom")

				return
			}
			r.set("c12_inbound_kinds", strings.SplitN(kind, "=", 2)[0])
		case k == 11: // RemoveConnByUfrag
			uf := ufrags[rng.IntN(len(ufrags))]
			desc = fmt.Sprintf("RemoveConnByUfrag(%q)", uf)
			trace = append(trace, desc)
			mux.RemoveConnByUfrag(uf)
			for _, v6 := range []bool{false, true} {
				if mc := model.conns[vfMKey(uf, v6)]; mc != nil {
					model.kill(mc)
					delete(model.conns, vfMKey(uf, v6))
				}
			}
		case k <= 13 && len(handles) > 0: // handle Close
			h := handles[rng.IntN(len(handles))]
			desc = fmt.Sprintf("handle#%d(conn#%d).Close()", handleIndex(handles, h), h.mc.id)
			trace = append(trace, desc)
			_ = h.pc.Close()
			if !h.closed {
				h.closed = true
				h.mc.handles--
				if h.mc.handles == 0 && !h.mc.dead {
					model.kill(h.mc)
					if model.conns[vfMKey(h.mc.ufrag, h.mc.v6)] == h.mc {
						delete(model.conns, vfMKey(h.mc.ufrag, h.mc.v6))
						awaitWatcher(h.mc)
					}
				}
			}
		case k == 14 && rng.IntN(4) == 0: // mux Close
			desc = "mux.Close()"
			trace = append(trace, desc)
			_ = mux.Close()
			model.closed = true
			for _, mc := range model.all {
				model.kill(mc)
			}
			model.conns = map[string]*vfMConn{}
		default:
			continue
		}
		// what arrived is not always read at once: datagrams may still be queued when the connection is removed or the mux
		// closed, and must not be handed out afterwards
		if lazyReader && strings.HasPrefix(desc, "inbound(") && rng.IntN(2) == 0 {
			if !model.closed && !checkBindings(desc) {
				break
			}

			continue
		}
		if !checkQueues(desc) {
			break
		}
		// after mux.Close() the worker has stopped: bindings are no longer observable and are not judged
		if !model.closed && !checkBindings(desc) {
			break
		}
	}
	_ = mux.Close()
	r.eval(1)
	r.count("c12_ops", int64(len(trace)))
	r.distinct(fmt.Sprintf("seq/unspec=%v/ap=%v/universal=%v/ufrags=%d/ops=%d/conns=%d", unspecified, addrPort, universal, len(ufrags), len(trace)/10, len(model.all)))
	if idx < 3 {
		r.sample(map[string]any{"idx": idx, "kind": "sequential model-based", "unspecified_mux": unspecified, "addrport_io": addrPort, "universal_wrapper": universal, "ops_head": trace[:min(12, len(trace))]})
	}
}

func handleIndex(hs []*vfMuxHandle, h *vfMuxHandle) int {
	for i, x := range hs {
		if x == h {
			return i
		}
	}

	return -1
}

// vfC12Concurrent: writers, feeder, removers and closers concurrently; schedule-independent oracle.
func vfC12Concurrent(e *vfEnv, r *vfResult, idx int) { //nolint:cyclop
	rng := e.rng(idx, "muxconc")
	sock := newVfMuxSock("10.0.0.9:7000")
	var under net.PacketConn = sock
	if rng.IntN(2) == 0 {
		under = vfMuxSockAP{sock}
	}
	var mux *UDPMuxDefault
	universal := rng.IntN(3) == 0
	if universal {
		mux = NewUniversalUDPMuxDefault(UniversalUDPMuxParams{UDPConn: under, Logger: vfQuietLogger().NewLogger("ice")}).UDPMuxDefault
	} else {
		mux = NewUDPMuxDefault(UDPMuxParams{UDPConn: under, Logger: vfQuietLogger().NewLogger("ice")})
	}
	if rng.IntN(2) == 0 {
		vfSetYield(newVfYieldPolicy(rand.New(rand.NewPCG(e.seed+uint64(idx), 21)), map[string]int{"udpmux.worker.beforeWritePacket": 300, "udpmux.closeWatcher.beforeRemove": 500, "shared.Close.afterCancel": 300, "*": 0}, 60)) //nolint:gosec
		defer vfSetYield(nil)
	}
	ufrags := []string{"uA", "uB", "uC"}
	type rd struct {
		data string
		src  string
		conn int
	}
	var mu sync.Mutex
	var reads []rd
	fed := map[string]string{} // payload -> source
	fedUfrag := map[string]string{}
	var wg sync.WaitGroup
	stop := make(chan struct{})
	var closedAt sync.Map // conn id -> time of Close return
	var afterClose atomic.Int32
	for ci, uf := range ufrags {
		pc, err := mux.GetConn(uf, sock.local)
		if err != nil {
			continue
		}
		wg.Add(2)
		go func(ci int, pc net.PacketConn) { // reader
			defer wg.Done()
			buf := make([]byte, 2000)
			for {
				// judged only when the ReadFrom CALL itself started after Close had returned
				_, closedBefore := closedAt.Load(ci)
				n, a, err := pc.ReadFrom(buf)
				if err != nil {
					return
				}
				if closedBefore {
					afterClose.Add(1)
				}
				mu.Lock()
				reads = append(reads, rd{string(buf[:n]), a.String(), ci})
				mu.Unlock()
			}
		}(ci, pc)
		go func(ci int, pc net.PacketConn, uf string) { // writer, then closer
			defer wg.Done()
			wr := rand.New(rand.NewPCG(e.seed+uint64(idx)*7+uint64(ci), 22)) //nolint:gosec
			for i := 0; i < 30; i++ {
				dst := vfMuxSrcPool[wr.IntN(4)]
				_, _ = pc.WriteTo([]byte(fmt.Sprintf("\x90out-%d-%d", ci, i)), vfUDPAddr(dst))
				if wr.IntN(5) == 0 {
					time.Sleep(time.Duration(wr.IntN(50)) * time.Microsecond)
				}
			}
			if wr.IntN(2) == 0 {
				mux.RemoveConnByUfrag(uf)
			}
			_ = pc.Close()
			closedAt.Store(ci, time.Now())
		}(ci, pc, uf)
	}
	wg.Add(1)
	go func() { // inbound feeder
		defer wg.Done()
		fr := rand.New(rand.NewPCG(e.seed+uint64(idx), 23)) //nolint:gosec
		for i := 0; i < 120; i++ {
			select {
			case <-stop:
				return
			default:
			}
			src := vfMuxSrcPool[fr.IntN(len(vfMuxSrcPool))]
			uf := ufrags[fr.IntN(len(ufrags))]
			user := uf + ":remote"
			data := vfStunWithUser(fr, &user)
			mu.Lock()
			fed[string(data)] = vfUDPAddr(src).String()
			fedUfrag[string(data)] = uf
			mu.Unlock()
			select {
			case sock.in <- vfMuxPkt{data, vfUDPAddr(src)}:
			case <-sock.closed:
				return
			case <-time.After(2 * time.Second):
				return
			}
		}
	}()
	done := make(chan struct{})
	go func() { wg.Wait(); close(done) }()
	select {
	case <-done:
	case <-time.After(30 * time.Second):
		close(stop)
		_ = mux.Close()
		r.violation("mux-concurrent-stuck", fmt.Sprintf("concurrent mux history %d did not finish", idx), map[string]any{"idx": idx, "stacks": vfStacks()})

		return
	}
	_ = mux.Close()
	r.eval(1)
	mu.Lock()
	defer mu.Unlock()
	seen := map[string]int{}
	perConn := map[int][]string{}
	for _, x := range reads {
		seen[x.data]++
		perConn[x.conn] = append(perConn[x.conn], x.data)
		src, ok := fed[x.data]
		if !ok {
			r.violation("mux-concurrent-fabricated", fmt.Sprintf("history %d: connection %d read a datagram that was never fed", idx, x.conn), map[string]any{"idx": idx})

			continue
		}
		ca, _ := netip.ParseAddrPort(src)
		ga, _ := netip.ParseAddrPort(x.src)
		if vfRefCanonAP(ca) != vfRefCanonAP(ga) {
			r.violation("mux-concurrent-wrong-source", fmt.Sprintf("history %d: datagram fed from %s was delivered with source %s", idx, src, x.src), map[string]any{"idx": idx})
		}
	}
	for d, n := range seen {
		if n > 1 {
			r.violation("mux-concurrent-duplicate", fmt.Sprintf("history %d: one datagram was delivered %d times (ufrag %s)", idx, n, fedUfrag[d]), map[string]any{"idx": idx})
		}
	}
	if afterClose.Load() > 0 {
		r.violation("mux-concurrent-read-after-close", fmt.Sprintf("history %d: %d datagram(s) were read from a connection after its Close had returned", idx, afterClose.Load()), map[string]any{"idx": idx})
	}
	r.count("c12_concurrent_reads", int64(len(reads)))
	keys := make([]string, 0, len(perConn))
	for k, v := range perConn {
		keys = append(keys, fmt.Sprintf("%d:%d", k, len(v)/10))
	}
	sort.Strings(keys)
	r.distinct(fmt.Sprintf("conc/%v", keys))
}

// vfC12Multi: MultiUDPMuxDefault over 2-3 muxes on different listen addresses.  GetConn(ufrag, addr) must come from
// the mux listening on addr (a datagram fed to THAT socket with the ufrag's username is read from the handle, one fed
// to another socket is not), an address nobody listens on is refused, RemoveConnByUfrag removes the ufrag from every
// mux and Close closes every underlying socket.
func vfC12Multi(e *vfEnv, r *vfResult, idx int) { //nolint:cyclop
	rng := e.rng(idx, "muxmulti")
	n := 2 + rng.IntN(2)
	var socks []*vfMuxSock
	var muxes []UDPMux
	for i := 0; i < n; i++ {
		sk := newVfMuxSock(fmt.Sprintf("10.0.%d.9:7000", i))
		socks = append(socks, sk)
		muxes = append(muxes, NewUDPMuxDefault(UDPMuxParams{UDPConn: sk, Logger: vfQuietLogger().NewLogger("ice")}))
	}
	multi := NewMultiUDPMuxDefault(muxes...)
	var trace []string
	viol := func(sig, msg string) {
		r.violation(sig, msg, map[string]any{"idx": idx, "muxes": n, "ops": trace})
	}
	r.eval(1)
	if got := len(multi.GetListenAddresses()); got != n {
		viol("multimux-listen-addresses", fmt.Sprintf("%d listen addresses reported for %d muxes", got, n))
	}
	if _, err := multi.GetConn("uX", vfUDPAddr("10.9.9.9:7000")); err == nil {
		viol("multimux-conn-for-unknown-address", "GetConn succeeded for an address no mux listens on")
	}
	ufrags := []string{"uA", "uB", "uC"}[:1+rng.IntN(3)]
	type hk struct {
		uf string
		i  int
	}
	handles := map[hk]net.PacketConn{}
	removed := map[string]bool{}
	seq := 0
	// probe: feed one datagram for ufrag uf to socket i, then list which handles have it queued
	probe := func(uf string, i int) map[hk]bool {
		seq++
		user := uf + ":r"
		src := vfUDPAddr(fmt.Sprintf("172.16.%d.%d:%d", seq/250, 1+seq%250, 3000+seq)) // a fresh source each time: routed by username
		data := vfStunWithUser(rng, &user)
		if !socks[i].feed(data, src) {
			return nil
		}
		got := map[hk]bool{}
		for k, pc := range handles {
			var real *udpMuxedConn
			switch v := pc.(type) {
			case *sharedAddrPortConn:
				real, _ = v.underlying.(*udpMuxedConn)
			case *sharedPacketConn:
				real, _ = v.underlying.(*udpMuxedConn)
			}
			if real == nil {
				continue
			}
			for {
				real.mu.Lock()
				has := real.bufTail != nil
				real.mu.Unlock()
				if !has {
					break
				}
				buf := make([]byte, 2000)
				m, a, err := real.ReadFrom(buf)
				if err != nil {
					break
				}
				if string(buf[:m]) == string(data) && a.String() == src.String() {
					got[k] = true
				} else {
					viol("multimux-unexpected-datagram", fmt.Sprintf("handle %v read a datagram that was not the probe", k))
				}
			}
		}

		return got
	}
	for op := 0; op < 10+rng.IntN(20); op++ {
		uf := ufrags[rng.IntN(len(ufrags))]
		i := rng.IntN(n)
		switch k := rng.IntN(8); {
		case k <= 2:
			pc, err := multi.GetConn(uf, socks[i].local)
			trace = append(trace, fmt.Sprintf("GetConn(%s, sock%d) err=%v", uf, i, err))
			if err != nil {
				viol("multimux-getconn-failed", fmt.Sprintf("GetConn(%s, %s): %v", uf, socks[i].local, err))

				return
			}
			if old, ok := handles[hk{uf, i}]; ok && !removed[uf] {
				_ = old // a second handle on the same connection; keep the first for probing
				_ = pc.Close()
			} else {
				handles[hk{uf, i}] = pc
			}
			delete(removed, uf)
		case k <= 5:
			trace = append(trace, fmt.Sprintf("probe(%s -> sock%d)", uf, i))
			got := probe(uf, i)
			if got == nil {
				r.inconclusive(1)

				return
			}
			r.eval(1)
			_, open := handles[hk{uf, i}]
			for g := range got {
				if g != (hk{uf, i}) {
					viol("multimux-misrouted", fmt.Sprintf("a datagram for %s fed to socket %d was read from the handle of (%s, socket %d)", uf, i, g.uf, g.i))
				}
			}
			if open && !got[hk{uf, i}] {
				viol("multimux-not-delivered", fmt.Sprintf("a datagram for %s fed to socket %d did not reach the handle obtained for that address", uf, i))
			}
		case k == 6:
			trace = append(trace, fmt.Sprintf("RemoveConnByUfrag(%s)", uf))
			multi.RemoveConnByUfrag(uf)
			for hkk := range handles {
				if hkk.uf == uf {
					delete(handles, hkk)
				}
			}
			removed[uf] = true
			// the close watchers unregister asynchronously
			for _, m := range muxes {
				md := m.(*UDPMuxDefault) //nolint:forcetypeassert
				for dl := time.Now().Add(5 * time.Second); time.Now().Before(dl); time.Sleep(5 * time.Microsecond) {
					md.mu.Lock()
					_, still := md.connsIPv4[uf]
					md.mu.Unlock()
					if !still {
						break
					}
				}
				md.mu.Lock()
				_, still := md.connsIPv4[uf]
				md.mu.Unlock()
				if still {
					viol("multimux-remove-left-ufrag", fmt.Sprintf("after RemoveConnByUfrag(%s) one of the underlying muxes still has the ufrag registered", uf))
				}
			}
		}
	}
	_ = multi.Close()
	for i, sk := range socks {
		sk.mu.Lock()
		c := sk.closes
		sk.mu.Unlock()
		select {
		case <-sk.closed:
		default:
			c = 0
		}
		if c == 0 {
			viol("multimux-close-left-socket-open", fmt.Sprintf("after MultiUDPMuxDefault.Close the socket of mux %d is still open", i))
		}
	}
	for _, pc := range handles {
		_ = pc.Close()
	}
	r.distinct(fmt.Sprintf("multi/muxes=%d/ufrags=%d/ops=%d", n, len(ufrags), len(trace)))
}

func TestVerifC12(t *testing.T) {
	vfRun(t, "C12", func(e *vfEnv, r *vfResult) {
		n := e.n(16000, 800000)
		for i := 0; i < n; i++ {
			if e.only >= 0 && i != e.only {
				continue
			}
			vfC12Sequential(e, r, i)
			if r.nViolations() > 30 {
				break
			}
		}
		m := e.n(400, 16000)
		for i := 0; i < m; i++ {
			vfC12Concurrent(e, r, i)
		}
		for i := 0; i < e.n(800, 32000); i++ {
			vfC12Multi(e, r, i)
		}
	})
}
