//go:build verif

package ice

// C02: unauthenticated or mismatched STUN never influences the agent.
// Differential monitor: a full snapshot of the agent (taken inside a task-loop task), the
// number of datagrams it has emitted and its callback logs are compared before and after ONE
// forged message, injected at random points of random session histories (also after Restart).

import (
	"context"
	"fmt"
	"net/netip"
	"sort"
	"strings"
	"testing"
	"time"

	"github.com/pion/stun/v3"
)

// fullSnap renders everything the property calls observable into one comparable string.
// level "exact": everything incl. liveness timestamps and outstanding transactions;
// level "pairs": pair states/nomination flags, selection, connection state, role only.
func (x *vfSide) fullSnap(level string) (string, *vfSnap) {
	sn := x.snapshot()
	if sn.Err != nil {
		return "", sn
	}
	var sb strings.Builder
	fmt.Fprintf(&sb, "state=%s ctrl=%v sel=%s selid=%d\n", sn.State, sn.Controlling, sn.Selected, sn.SelID)
	for _, p := range sn.Pairs {
		fmt.Fprintf(&sb, "pair %d %s|%s st=%s nom=%v nos=%v", p.ID, p.Local, p.Remote, p.State, p.Nominated, p.NomOnSucc)
		if level == "exact" {
			fmt.Fprintf(&sb, " prio=%d rc=%d rs=%d rr=%d ps=%d pr=%d cnt=%d %d/%d/%d/%d", p.Prio, p.ReqCount, p.ReqSent, p.ReqRecv, p.RespSent, p.RespRecv, p.ReqCount, p.PktSent, p.PktRecv, p.BytesSent, p.BytesRecv)
		}
		sb.WriteByte('\n')
	}
	if level == "exact" {
		fmt.Fprintf(&sb, "gather=%s lu=%s ru=%s lastnom=%d\n", sn.Gathering, sn.LocalUfrag, sn.RemoteUfrag, sn.LastNom)
		for _, c := range sn.Locals {
			fmt.Fprintf(&sb, "local %s %s recv=%d\n", c.Addr, c.Type, c.LastRecv)
		}
		for _, c := range sn.Remotes {
			fmt.Fprintf(&sb, "remote %s %s prio=%d recv=%d\n", c.Addr, c.Type, c.Prio, c.LastRecv)
		}
		pend := append([]string{}, sn.Pending...)
		sort.Strings(pend)
		fmt.Fprintf(&sb, "pending=%v\n", pend)
		x.mu.Lock()
		fmt.Fprintf(&sb, "callbacks states=%d cands=%d sel=%d\n", len(x.states), len(x.cands)+x.candNils, len(x.selEvents))
		x.mu.Unlock()
	} else {
		for _, c := range sn.Remotes {
			fmt.Fprintf(&sb, "remote %s %s\n", c.Addr, c.Type)
		}
	}

	return sb.String(), sn
}

func (s *vfSession) emittedBy(name string) int {
	n := 0
	for _, d := range s.sw.wireFrom(0) {
		if d.Emitter == name {
			n++
		}
	}

	return n
}

type vfForge struct {
	Kind     string // request / success / error / indication / other-method
	User     string // correct / swapped / wrong / absent / oldgen / prefix / trailing-colon
	Key      string // correct / peer / wrong / oldgen / absent
	Tx       string // fresh / outstanding / answered / oldgen
	Src      string // known / unknown
	Extras   []string
	Finger   bool
	Expected string // inert / pairs-inert / liveness-only / free
}

func (s *vfSession) forgeStep(x *vfSide) { //nolint:cyclop,maintidx
	if s.broken != "" || x.closed || (!x.started && !s.forgeUnstarted) {
		return
	}
	rng := s.rng
	peer := s.other(x)
	if err := vfAwaitNotifiers(x.a); err != nil { // callbacks of earlier steps must not land between the two snapshots
		s.broken = err.Error()

		return
	}
	beforeExact, sn := x.fullSnap("exact")
	if sn.Err != nil || len(sn.Locals) == 0 {
		return
	}
	beforePairs, _ := x.fullSnap("pairs")
	emitted0 := s.emittedBy(x.name)
	lc := sn.Locals[rng.IntN(len(sn.Locals))]
	dst, err := netip.ParseAddrPort(strings.SplitN(lc.Addr, "/", 2)[1])
	if err != nil {
		return
	}
	f := vfForge{}
	f.Kind = []string{"request", "request", "request", "success", "success", "success", "error", "indication", "other-method"}[rng.IntN(9)]
	f.User = []string{"correct", "swapped", "wrong", "absent", "oldgen", "prefix", "trailing-colon", "correct", "correct", "empty-remote"}[rng.IntN(10)]
	// the agent has no remote credentials yet (before Dial/Accept) or no longer (after Restart, before they are set again):
	// the peer's real username is then NOT '<local ufrag>:<remote ufrag>' and no response can verify
	remoteKnown := sn.RemoteUfrag != ""
	f.Key = []string{"correct", "correct", "other-side", "wrong", "oldgen", "absent"}[rng.IntN(6)]
	f.Tx = []string{"fresh", "outstanding", "answered", "oldgen", "expired"}[rng.IntN(5)]
	f.Src = []string{"known", "known", "unknown"}[rng.IntN(3)]
	f.Finger = rng.IntN(4) != 0
	if s.forgeValidTCP {
		// seeding step: a genuinely valid check from a new TCP peer address (an active peer that connected to the passive candidate)
		var tcpLocals []vfCandSnap
		for _, l := range sn.Locals {
			if l.NT.IsTCP() {
				tcpLocals = append(tcpLocals, l)
			}
		}
		if len(tcpLocals) == 0 {
			return
		}
		lc = tcpLocals[rng.IntN(len(tcpLocals))]
		if dst, err = netip.ParseAddrPort(strings.SplitN(lc.Addr, "/", 2)[1]); err != nil {
			return
		}
		f.Kind, f.User, f.Key, f.Tx, f.Src = "request", "correct", "correct", "fresh", "unknown"
	}
	// source address
	var src netip.AddrPort
	var knownAddrs []netip.AddrPort
	for _, rc := range sn.Remotes {
		if rc.NT == lc.NT {
			if ap, err := netip.ParseAddrPort(strings.SplitN(rc.Addr, "/", 2)[1]); err == nil {
				knownAddrs = append(knownAddrs, ap)
			}
		}
	}
	if f.Src == "unknown" && x.otherTransportAddr.IsValid() && dst.Addr().Is4() && !lc.NT.IsTCP() && rng.IntN(3) == 0 {
		f.Src, src = "known-on-other-transport", x.otherTransportAddr // known to the agent only as a remote TCP candidate
	} else if f.Src == "known" && len(knownAddrs) > 0 {
		src = knownAddrs[rng.IntN(len(knownAddrs))]
	} else {
		f.Src = "unknown"
		src = netip.AddrPortFrom(netip.MustParseAddr(fmt.Sprintf("172.30.%d.%d", rng.IntN(250), 1+rng.IntN(250))), uint16(2000+rng.IntN(60000))) //nolint:gosec
		if lc.NT.IsTCP() || rng.IntN(4) == 0 {
			// few hosts, many ports: several connections / streams from one host or NAT
			src = netip.AddrPortFrom(netip.MustParseAddr(fmt.Sprintf("172.30.0.%d", 1+rng.IntN(2))), src.Port())
		}
		if dst.Addr().Is6() {
			src = netip.AddrPortFrom(netip.MustParseAddr(fmt.Sprintf("fd66::%x", 1+rng.IntN(65000))), src.Port())
		}
	}
	// transaction id
	tx := vfNewTxID()
	outstandingDst := netip.AddrPort{}
	outstandingSock := netip.AddrPort{}
	txKind := "fresh"
	txOldGen := false
	pickTx := func(match func(d *vfDgram) bool) bool {
		var cands []*vfDgram
		for _, d := range s.sw.wireFrom(0) {
			if d.Emitter == x.name && d.Stun != nil && d.Stun.Class == "request" && match(d) {
				cands = append(cands, d)
			}
		}
		if len(cands) == 0 {
			return false
		}
		d := cands[rng.IntN(len(cands))]
		m := &stun.Message{Raw: append([]byte{}, d.Data...)}
		if m.Decode() != nil {
			return false
		}
		tx = m.TransactionID
		outstandingDst, outstandingSock = d.Dst, d.SrcPriv
		txOldGen = x.gen > 0 && d.Step <= x.restartedAt // the request was sent in a generation ended by Restart

		return true
	}
	pendingSet := map[string]bool{}
	for _, t := range sn.Pending {
		pendingSet[t] = true
	}
	// a known remote address (same network type as the socket that sent d) on the IP d went to, but on another port
	sibling := func(d *vfDgram) (netip.AddrPort, bool) {
		var nt NetworkType
		found := false
		for _, l := range sn.Locals {
			if ap, err := netip.ParseAddrPort(strings.SplitN(l.Addr, "/", 2)[1]); err == nil && ap == d.SrcPriv {
				nt, found = l.NT, true
			}
		}
		if !found {
			return netip.AddrPort{}, false
		}
		for _, rc := range sn.Remotes {
			if rc.NT != nt {
				continue
			}
			if ap, err := netip.ParseAddrPort(strings.SplitN(rc.Addr, "/", 2)[1]); err == nil && ap.Addr() == d.Dst.Addr() && ap.Port() != d.Dst.Port() {
				return ap, true
			}
		}

		return netip.AddrPort{}, false
	}
	if f.Tx == "outstanding" && f.Kind == "success" && rng.IntN(2) == 0 {
		// directed: everything right (signature, live transaction, known source on the right IP) except the source PORT
		var sib netip.AddrPort
		if pickTx(func(d *vfDgram) bool {
			if !pendingSet[d.Stun.TxID] {
				return false
			}
			_, ok := sibling(d)

			return ok
		}) {
			for _, d := range s.sw.wireFrom(0) {
				if d.Emitter == x.name && d.Dst == outstandingDst && d.SrcPriv == outstandingSock {
					sib, _ = sibling(d)

					break
				}
			}
			if sib.IsValid() {
				txKind, f.Tx = "outstanding", "outstanding-directed"
				f.Key, src, f.Src, dst = "correct", sib, "known-same-ip-other-port", outstandingSock
			}
		}
	}
	if f.Tx == "expired" {
		// a request that is still listed as outstanding but was sent longer ago than a transaction lives (the entry is
		// backdated by 5 s): everything right - signature, transaction id, source - except that the answer comes too late
		f.Tx = "fresh"
		if f.Kind == "success" && pickTx(func(d *vfDgram) bool { return pendingSet[d.Stun.TxID] }) {
			backdated := false
			txid := tx
			_ = x.a.loop.Run(x.a.loop, func(context.Context) {
				for i := range x.a.pendingBindingRequests {
					if x.a.pendingBindingRequests[i].transactionID == txid {
						x.a.pendingBindingRequests[i].timestamp = x.a.pendingBindingRequests[i].timestamp.Add(-5 * time.Second)
						backdated = true
					}
				}
			})
			if backdated {
				txKind, f.Tx = "expired", "expired"
				f.Key, src, f.Src, dst = "correct", outstandingDst, "request-destination", outstandingSock
				// the snapshots were taken before the backdating; take them again (timestamps are not part of them, but be exact)
				beforeExact, sn = x.fullSnap("exact")
				beforePairs, _ = x.fullSnap("pairs")
			}
		}
	}
	switch f.Tx {
	case "outstanding":
		if pickTx(func(d *vfDgram) bool { return pendingSet[d.Stun.TxID] }) {
			txKind = "outstanding"
			if f.Kind == "success" && rng.IntN(2) == 0 {
				// the interesting case: everything right except possibly the source
				f.Key = "correct"
				switch rng.IntN(3) {
				case 0:
					src, f.Src = outstandingDst, "request-destination"
					if outstandingSock != dst && rng.IntN(2) == 0 {
						dst = outstandingSock
					}
				case 1: // a known remote on the same IP as the request's destination but another port, to the socket that sent the request
					for _, ka := range knownAddrs {
						if ka.Addr() == outstandingDst.Addr() && ka.Port() != outstandingDst.Port() {
							src, f.Src, dst = ka, "known-same-ip-other-port", outstandingSock
						}
					}
				}
			}
		}
	case "answered":
		if pickTx(func(d *vfDgram) bool { return !pendingSet[d.Stun.TxID] && !(x.gen > 0 && d.Step <= x.restartedAt) }) {
			txKind = "answered"
		}
	case "oldgen":
		// "old generation" is relative to the RECEIVER's own Restart: its transactions were wiped then
		if pickTx(func(d *vfDgram) bool { return x.gen > 0 && d.Step <= x.restartedAt }) {
			txKind = "oldgen"
			if f.Kind == "success" && rng.IntN(2) == 0 {
				// a correctly signed answer to a request of the ended generation, from where that request went
				f.Key, src, f.Src = "correct", outstandingDst, "request-destination"
			}
		}
	}
	if txOldGen && txKind == "outstanding" {
		txKind = "oldgen" // still listed as outstanding although its generation ended: must be inert all the same
	}
	if f.Tx != "expired" {
		f.Tx = txKind
	}
	// build
	var typ stun.MessageType
	switch f.Kind {
	case "request":
		typ = stun.MessageType{Method: stun.MethodBinding, Class: stun.ClassRequest}
	case "success":
		typ = stun.MessageType{Method: stun.MethodBinding, Class: stun.ClassSuccessResponse}
	case "error":
		typ = stun.MessageType{Method: stun.MethodBinding, Class: stun.ClassErrorResponse}
	case "indication":
		typ = stun.MessageType{Method: stun.MethodBinding, Class: stun.ClassIndication}
	default:
		typ = stun.MessageType{Method: []stun.Method{stun.MethodAllocate, stun.MethodRefresh, stun.MethodSend, stun.MethodData, stun.MethodChannelBind}[rng.IntN(5)],
			Class: []stun.MessageClass{stun.ClassRequest, stun.ClassSuccessResponse, stun.ClassIndication, stun.ClassErrorResponse}[rng.IntN(4)]}
	}
	setters := []stun.Setter{typ, stun.NewTransactionIDSetter(tx)}
	correctUser := x.ufrag + ":" + peer.ufrag
	oldUser := fmt.Sprintf("%s:%s", x.oldUfrag, peer.oldUfrag)
	user := ""
	switch f.User {
	case "correct":
		user = correctUser
	case "swapped":
		user = peer.ufrag + ":" + x.ufrag
	case "wrong":
		user = "abcd:efgh"
	case "oldgen":
		if x.oldUfrag == "" && peer.oldUfrag == "" {
			f.User, user = "wrong", "zzzz:"+peer.ufrag
		} else {
			user = oldUser
			if x.oldUfrag == "" {
				user = x.ufrag + ":" + peer.oldUfrag
			} else if peer.oldUfrag == "" {
				user = x.oldUfrag + ":" + peer.ufrag
			}
		}
	case "prefix":
		user = x.ufrag
	case "empty-remote":
		user = x.ufrag + ":"
	case "trailing-colon":
		user = correctUser + ":"
	}
	if f.User != "absent" {
		setters = append(setters, stun.NewUsername(user))
	}
	// ICE attributes in random subset and order
	attrs := []func() (string, stun.Setter){
		func() (string, stun.Setter) { return "priority", PriorityAttr(1845501695 + uint32(rng.IntN(100))) }, //nolint:gosec
		func() (string, stun.Setter) { return "use-candidate", UseCandidate() },
		func() (string, stun.Setter) { return "controlling", AttrControlling(rng.Uint64()) },
		func() (string, stun.Setter) { return "controlled", AttrControlled(rng.Uint64()) },
		func() (string, stun.Setter) { return "nomination", Nomination(uint32(1 + rng.IntN(1000))) }, //nolint:gosec
		func() (string, stun.Setter) {
			return "xor-mapped", &stun.XORMappedAddress{IP: src.Addr().AsSlice(), Port: int(src.Port())}
		},
		func() (string, stun.Setter) {
			return "unknown-attr", stun.RawAttribute{Type: stun.AttrType(0x8000 + rng.IntN(0x1000)), Value: []byte{1, 2, 3, 4}} //nolint:gosec
		},
		func() (string, stun.Setter) {
			return "error-code", stun.ErrorCodeAttribute{Code: []stun.ErrorCode{400, 401, 487, 500}[rng.IntN(4)], Reason: []byte("x")}
		},
	}
	rng.Shuffle(len(attrs), func(i, j int) { attrs[i], attrs[j] = attrs[j], attrs[i] })
	for _, mk := range attrs[:rng.IntN(len(attrs)+1)] {
		name, st := mk()
		if (name == "controlling" && contains(f.Extras, "controlled")) || (name == "controlled" && contains(f.Extras, "controlling")) {
			continue
		}
		f.Extras = append(f.Extras, name)
		setters = append(setters, st)
	}
	// integrity key: for requests the receiver's (x's) password is the right one, for responses the peer's
	right, other := x.pwd, peer.pwd
	oldRight, oldOther := x.oldPwd, peer.oldPwd
	if f.Kind != "request" {
		right, other, oldRight = peer.pwd, x.pwd, peer.oldPwd
		_ = oldOther
	}
	key := ""
	switch f.Key {
	case "correct":
		key = right
	case "other-side":
		key = other
	case "wrong":
		key = "completelyWrongPasswordForThisTest!!"
	case "oldgen":
		key = oldRight
		if key == "" {
			f.Key, key = "wrong", "anotherWrongPasswordForThisTestABC"
		}
	}
	if f.Key != "absent" {
		setters = append(setters, stun.NewShortTermIntegrity(key))
	}
	if f.Finger {
		setters = append(setters, stun.Fingerprint)
	}
	m, err := stun.Build(setters...)
	if err != nil {
		return
	}
	// classify from first principles
	if !remoteKnown && f.User == "correct" {
		f.User = "peer-ufrag-while-remote-credentials-unset"
	}
	userOK := f.User == "correct" || (f.User == "empty-remote" && !remoteKnown)
	keyOK := f.Key == "correct"
	if !remoteKnown && f.Kind != "request" {
		keyOK = false // verified against an empty remote password
	}
	switch f.Kind {
	case "request":
		if userOK && keyOK {
			f.Expected = "free" // a genuinely valid request: not this monitor's business
		} else {
			f.Expected = "inert"
		}
	case "success":
		switch {
		case !keyOK:
			f.Expected = "inert"
		case f.Tx == "outstanding" && src == outstandingDst:
			f.Expected = "free" // may legitimately validate the pair (transaction-matched, symmetric)
		default:
			f.Expected = "pairs-inert"
		}
	case "indication":
		f.Expected = "liveness-only"
	default:
		f.Expected = "inert"
	}
	s.step("forge", x.name, 0, fmt.Sprintf("%+v from %s to %s", f, src, dst))
	dg := s.sw.inject(src, dst, m.Raw)
	s.deliver(dg.ID, false)
	if s.broken != "" {
		return
	}
	afterExact, an := x.fullSnap("exact")
	afterPairs, _ := x.fullSnap("pairs")
	if an.Err != nil {
		return
	}
	emitted1 := s.emittedBy(x.name)
	cls := fmt.Sprintf("%s/user=%s/key=%s/tx=%s/src=%s/%s/state=%s/remotecreds=%v", f.Kind, f.User, f.Key, f.Tx, f.Src, f.Expected, sn.State, remoteKnown)
	if !remoteKnown {
		s.r.count("c02_injections_without_remote_credentials", 1)
	}
	s.r.set("c02_classes", fmt.Sprintf("%s/user=%s/key=%s/tx=%s/src=%s/%s", f.Kind, f.User, f.Key, f.Tx, f.Src, f.Expected))
	s.r.set("c02_agent_states", sn.State.String())
	s.r.count("c02_injections", 1)
	s.r.count("c02_expected_"+f.Expected, 1)
	s.r.distinct("inj/" + cls)
	wit := map[string]any{"forged": fmt.Sprintf("%+v", f), "src": src.String(), "dst": dst.String(), "before": beforeExact, "after": afterExact}
	diff := func(a, b string) string {
		la, lb := strings.Split(a, "\n"), strings.Split(b, "\n")
		var out []string
		for i := 0; i < len(la) || i < len(lb); i++ {
			x, y := "", ""
			if i < len(la) {
				x = la[i]
			}
			if i < len(lb) {
				y = lb[i]
			}
			if x != y {
				out = append(out, fmt.Sprintf("%q -> %q", x, y))
			}
		}
		if len(out) > 4 {
			out = out[:4]
		}

		return strings.Join(out, "; ")
	}
	sigBase := fmt.Sprintf("%s:user=%s:key=%s", f.Kind, f.User, f.Key)
	switch f.Expected {
	case "inert":
		if emitted1 != emitted0 {
			s.viol("C02", "reply-to-invalid:"+sigBase, fmt.Sprintf("%d datagram(s) were sent in reaction to a %s that must be dropped (%+v)", emitted1-emitted0, f.Kind, f), wit)
		}
		if afterExact != beforeExact {
			s.viol("C02", "effect-of-invalid:"+sigBase, fmt.Sprintf("a %s that must be dropped (%+v) changed the agent: %s", f.Kind, f, diff(beforeExact, afterExact)), wit)
		}
	case "pairs-inert":
		if afterPairs != beforePairs {
			s.viol("C02", "unmatched-response-changed-pairs:tx="+f.Tx+":src="+f.Src, fmt.Sprintf("a correctly signed success response with transaction %s from %s (%+v) changed pair state: %s", f.Tx, f.Src, f, diff(beforePairs, afterPairs)), wit)
		}
	case "liveness-only":
		// everything equal except recv= of the remote whose address is the source
		strip := func(sv string) string {
			var out []string
			for _, l := range strings.Split(sv, "\n") {
				if strings.HasPrefix(l, "remote ") && strings.Contains(l, "/"+src.String()+" ") {
					if i := strings.Index(l, " recv="); i > 0 {
						l = l[:i]
					}
				}
				out = append(out, l)
			}

			return strings.Join(out, "\n")
		}
		if strip(afterExact) != strip(beforeExact) {
			s.viol("C02", "indication-effect", fmt.Sprintf("a Binding indication (%+v) changed more than the liveness timestamp of its source: %s", f, diff(strip(beforeExact), strip(afterExact))), wit)
		}
		if emitted1 != emitted0 {
			s.viol("C02", "reply-to-indication", fmt.Sprintf("%d datagram(s) sent in reaction to an indication", emitted1-emitted0), wit)
		}
	}
}

func contains(l []string, s string) bool {
	for _, x := range l {
		if x == s {
			return true
		}
	}

	return false
}

func vfC02Run(e *vfEnv, r *vfResult, idx int) {
	s := newVfSession(e, r, idx, "c02")
	defer s.closeAll()
	t := vfGenTopo(s)
	withRestart := s.rng.IntN(3) == 0
	s.desc["topology"], s.desc["restart"] = t, withRestart
	forgeBoth := func(n int) {
		for i := 0; i < n; i++ {
			s.forgeStep(s.A)
			s.forgeStep(s.B)
		}
	}
	s.forgeUnstarted = true
	s.beforeStart = func() { forgeBoth(2) }   // gathered, but no remote credentials yet
	s.afterRegather = func() { forgeBoth(2) } // after Restart, before the remote credentials are set again
	tcpA, tcpB := s.rng.IntN(2) == 0, s.rng.IntN(2) == 0
	s.desc["tcp_passive_a"], s.desc["tcp_passive_b"] = tcpA, tcpB
	if err := s.setupPair(t, vfSideCfg{MaxBinding: 1000, TieBreaker: 51, Renomination: s.rng.IntN(3) == 0, TCPPassive: tcpA}, vfSideCfg{MaxBinding: 1000, TieBreaker: 52, Renomination: true, TCPPassive: tcpB}, true, false); err != nil {
		r.inconclusive(1)

		return
	}
	pending, err := s.signalList(t)
	if err != nil {
		r.inconclusive(1)

		return
	}
	// each side may also be told a second candidate on one of the peer's IPs with another port (no socket behind it):
	// a known remote address that shares its IP with a real one
	for _, x := range s.sides() {
		if s.rng.IntN(2) == 0 {
			peerC := s.other(x).localCands()
			if len(peerC) > 0 {
				c := peerC[s.rng.IntN(len(peerC))]
				pub := s.sw.pub(vfCandAP(c))
				if bc, err := NewCandidateServerReflexive(&CandidateServerReflexiveConfig{Network: "udp", Address: pub.Addr().String(), Port: int(pub.Port()) + 1, Component: 1, RelAddr: "192.0.2.1", RelPort: 9}); err == nil {
					pending = append(pending, vfPendingSignal{to: x, cand: bc, desc: fmt.Sprintf("%s told extra same-IP candidate %s", x.name, vfCandAddr(bc))})
				}
			}
		}
	}
	for i, x := range s.sides() {
		ap := netip.MustParseAddrPort(fmt.Sprintf("10.%d.200.1:9000", 50+i))
		if tc, err := NewCandidateHost(&CandidateHostConfig{Network: "tcp", Address: ap.Addr().String(), Port: int(ap.Port()), Component: 1, TCPType: TCPTypePassive}); err == nil {
			x.otherTransportAddr = ap
			pending = append(pending, vfPendingSignal{to: x, cand: tc, desc: fmt.Sprintf("%s told TCP passive candidate %s", x.name, ap)})
		}
	}
	budget := map[*vfSide]int{s.A: 40, s.B: 40}
	phase := func(n int) {
		for i := 0; i < n && s.broken == ""; i++ {
			if s.rng.IntN(5) == 0 {
				x := s.A
				if s.rng.IntN(2) == 0 {
					x = s.B
				}
				s.forgeStep(x)

				continue
			}
			s.chaosC06(1, budget, &pending)
		}
	}
	// injections before any check, while checking, and once connected
	for i := 0; i < 3; i++ {
		s.forgeStep(s.A)
		s.forgeStep(s.B)
	}
	// active TCP peers connect to the passive candidates: valid checks from a few ports of one or two hosts
	seedTCP := func() {
		s.forgeValidTCP = true
		for _, x := range s.sides() {
			if x.cfg.TCPPassive {
				for i := 0; i < 2+s.rng.IntN(2); i++ {
					s.forgeStep(x)
				}
			}
		}
		s.forgeValidTCP = false
	}
	seedTCP()
	phase(40 + s.rng.IntN(120))
	s.fairSuffixC06(&pending, 3)
	// application data in both directions: afterwards the agents hold a cache of validated data sources, and STUN-looking
	// junk from such an address is still junk
	for _, x := range s.sides() {
		if sn := x.snapshot(); sn.Err == nil && sn.Selected != "" && x.conn != nil {
			s.step("write", x.name, 0, "application data")
			_, _ = x.conn.Write([]byte("\x90application data from " + x.name))
			s.r.count("c02_sessions_with_application_data", 1)
		}
	}
	s.deliverAll(true, 50)
	phase(20 + s.rng.IntN(40))
	if withRestart && s.broken == "" {
		for _, x := range s.sides() {
			x.oldUfrag, x.oldPwd = x.ufrag, x.pwd
		}
		var np []vfPendingSignal
		var err error
		if s.rng.IntN(2) == 0 {
			np, err = s.coordinatedRestart(t, s.rng.IntN(6))
		} else {
			// one-sided: only A starts a new generation; B keeps its sockets, credentials and candidates, which A is told again
			s.desc["restart"] = "one-sided (A)"
			s.B.oldUfrag, s.B.oldPwd = "", "" // B's generation continues: it has no ended credentials
			s.restartStep(s.A)
			if err = s.A.gather(); err == nil {
				for i := 0; i < 3; i++ {
					s.forgeStep(s.A) // A has a new generation and no remote credentials
				}
				err = s.A.a.SetRemoteCredentials(s.B.ufrag, s.B.pwd)
			}
			if err == nil {
				err = s.B.a.SetRemoteCredentials(s.A.ufrag, s.A.pwd)
			}
			if err == nil {
				np, err = s.signalList(t)
			}
		}
		if err == nil {
			pending = np
			for i := 0; i < 4; i++ {
				s.forgeStep(s.A)
				s.forgeStep(s.B)
			}
			seedTCP()
			phase(40 + s.rng.IntN(80))
			s.fairSuffixC06(&pending, 3)
			phase(10 + s.rng.IntN(30))
		}
	}
	r.eval(1)
	r.count("steps", int64(s.stepN))
	if s.broken != "" {
		r.inconclusive(1)
		r.note("run %d lost quiescence: %s", idx, s.broken)

		return
	}
	if idx < 2 {
		r.sample(map[string]any{"idx": idx, "topology": t, "restart": withRestart, "steps": s.stepN, "example_forged_step": vfLastForge(s)})
	}
}

func vfLastForge(s *vfSession) string {
	for i := len(s.steps) - 1; i >= 0; i-- {
		if s.steps[i].Op == "forge" {
			return s.steps[i].Note
		}
	}

	return ""
}

func TestVerifC02(t *testing.T) {
	vfRun(t, "C02", func(e *vfEnv, r *vfResult) {
		n := e.n(1200, 60000)
		for i := 0; i < n; i++ {
			if e.only >= 0 && i != e.only {
				continue
			}
			vfC02Run(e, r, i)
		}
	})
}
