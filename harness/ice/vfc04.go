//go:build verif

package ice

// C04: connection-state lifecycle and liveness timing.
// (1) The notified-state automaton and consistency checks run in monitorC04 after every
//     step of every E1 history (here: C01-style chaos, Restart/Failed variants, Close).
// (2) Timing samples, interval-sound: the selected remote's last-received instant is set
//     explicitly, monotonic clock readings bracket the synchronous tick, and a sample is
//     judged only if the whole possible silence interval lies on one side of every threshold.

import (
	"context"
	"fmt"
	"testing"
	"time"
)

// peerConnect drives agent A (controlled or controlling) against the scripted peer until A has a selected pair.
func (s *vfSession) peerConnect() bool {
	p := s.P
	aSock := s.aSockets()[0]
	for round := 0; round < 6 && s.broken == ""; round++ {
		if !s.A.controlling {
			m := p.build(s.A, vfReqOpts{Role: "controlling", Tie: p.tie, UseCand: true})
			s.step("peer-request", "P", 0, "nominate")
			p.send(p.socks[0], aSock, m.Raw)
		} else {
			s.tickSide(s.A)
		}
		for k := 0; k < 6; k++ {
			s.deliverAll(false, 100)
			for _, d := range p.take() {
				if d.Stun != nil && d.Stun.Class == "request" {
					if sock := p.sockFor(d.Dst); sock != nil {
						p.respond(d, sock, d.Src, p.pwd)
					}
				}
			}
			if len(s.sw.inflightIDs()) == 0 {
				break
			}
		}
		if sn := s.A.snapshot(); sn.Err == nil && sn.Selected != "" {
			return true
		}
	}

	return false
}

func vfC04RefState(prev ConnectionState, silence, d, f time.Duration) ConnectionState {
	disconnected := d != 0 && silence > d
	failed := f != 0 && silence > d+f
	switch {
	case failed:
		if disconnected && prev != ConnectionStateDisconnected && prev != ConnectionStateFailed {
			return ConnectionStateDisconnected
		}

		return ConnectionStateFailed
	case disconnected:
		return ConnectionStateDisconnected
	default:
		return ConnectionStateConnected
	}
}

func (x *vfSide) setSelectedRemoteLastReceived(t time.Time) bool {
	ok := false
	_ = x.a.loop.Run(x.a.loop, func(context.Context) {
		if sel := x.a.getSelectedPair(); sel != nil {
			if st, is := sel.Remote.(candidateActivitySetter); is {
				st.setLastReceived(t)
				ok = true
			}
		}
	})

	return ok
}

func vfC04Timing(e *vfEnv, r *vfResult, idx int) { //nolint:cyclop
	s := newVfSession(e, r, idx, "c04timing")
	defer s.closeAll()
	rng := s.rng
	durs := []time.Duration{0, 20 * time.Millisecond, 50 * time.Millisecond, 400 * time.Millisecond, 3 * time.Second}
	d, f := durs[rng.IntN(len(durs))], durs[rng.IntN(len(durs))]
	lite := rng.IntN(4) == 0
	controlling := !lite && rng.IntN(2) == 0
	// documented defaults instead of explicit values: disconnected 5 s (lite 10 s), failed 25 s
	nilD, nilF := rng.IntN(4) == 0, rng.IntN(6) == 0
	if nilD {
		d = 5 * time.Second
		if lite {
			d = 10 * time.Second
		}
	}
	if nilF {
		f = 25 * time.Second
	}
	s.desc["disconnected_timeout"], s.desc["failed_timeout"], s.desc["lite"], s.desc["controlling"] = d.String(), f.String(), lite, controlling
	s.desc["disconnected_timeout_defaulted"], s.desc["failed_timeout_defaulted"] = nilD, nilF
	if err := s.setupAgentVsPeer(vfSideCfg{MaxBinding: 1000, DiscTimeout: d, FailTimeout: f, NilDisc: nilD, NilFail: nilF, Lite: lite, TieBreaker: 99}, controlling, 1, 1, true); err != nil {
		r.inconclusive(1)
		r.note("setup: %v", err)

		return
	}
	if !s.peerConnect() {
		if s.broken == "" {
			// with millisecond timeouts a slow machine can fail the agent during setup; not a timing sample
			r.outOfScope(1)
		} else {
			r.inconclusive(1)
		}

		return
	}
	prev := ConnectionStateConnected
	nSamples := 4 + rng.IntN(10)
	for k := 0; k < nSamples && s.broken == ""; k++ {
		// silence relative to the thresholds: below D, between, beyond D+F, and uniformly
		var sil time.Duration
		margin := 6 * time.Millisecond
		switch rng.IntN(7) {
		case 0:
			sil = time.Duration(rng.Int64N(int64(d/2 + 1)))
		case 1:
			sil = d - margin
		case 2:
			sil = d + margin
		case 3:
			sil = d + f - margin
		case 4:
			sil = d + f + margin
		case 5:
			sil = d + f + time.Duration(rng.Int64N(int64(5*time.Second)))
		default:
			sil = time.Duration(rng.Int64N(int64(d + f + 40*time.Millisecond)))
		}
		if sil < 0 {
			sil = 0
		}
		t0 := time.Now().Add(-sil)
		if !s.A.setSelectedRemoteLastReceived(t0) {
			break
		}
		t1 := time.Now()
		s.tickSide(s.A)
		t2 := time.Now()
		sn := s.A.snapshot()
		if sn.Err != nil || s.broken != "" {
			break
		}
		lo, hi := t1.Sub(t0), t2.Sub(t0)
		wLo, wHi := vfC04RefState(prev, lo, d, f), vfC04RefState(prev, hi, d, f)
		r.eval(1)
		if wLo != wHi {
			r.inconclusive(1) // the tick straddled a threshold: not judged
			prev = sn.State   // but the state it produced is the previous state of the next sample
			if prev == ConnectionStateFailed {
				break
			}
			s.dropAll()

			continue
		}
		region := "connected"
		switch {
		case f != 0 && lo > d+f:
			region = "beyond-failed"
		case d != 0 && lo > d:
			region = "beyond-disconnected"
		}
		r.set("c04_timing_regions", fmt.Sprintf("%s/D=%v/F=%v/prev=%s", region, d != 0, f != 0, prev))
		r.count("timing_samples_judged", 1)
		if sn.State != wLo {
			s.viol("C04", fmt.Sprintf("timing:%s-want-%s-got-%s", region, wLo, sn.State),
				fmt.Sprintf("silence in [%v, %v], disconnected timeout %v, failed timeout %v, previous state %s: state after the tick is %s, want %s", lo, hi, d, f, prev, sn.State, wLo),
				map[string]any{"silence_lo": lo.String(), "silence_hi": hi.String()})
		}
		prev = sn.State
		if prev == ConnectionStateFailed {
			break
		}
		s.dropAll() // keepalives are not answered unless "traffic resumes"
		if rng.IntN(4) == 0 && prev != ConnectionStateFailed {
			// traffic resumes: an authenticated request from the selected remote refreshes liveness
			m := s.P.build(s.A, vfReqOpts{Role: map[bool]string{true: "controlled", false: "controlling"}[controlling], Tie: s.P.tie})
			dg := s.P.send(s.P.socks[0], s.aSockets()[0], m.Raw)
			t1 = time.Now() // BEFORE the delivery: the liveness timestamp is set somewhere after this instant
			s.deliver(dg.ID, false)
			s.dropAll()
			s.tickSide(s.A)
			// judged only when the tick came well before the first threshold that applies: the disconnected timeout, or -
			// with that one disabled - the failed timeout (Connected goes straight to Failed then)
			first := d
			if first == 0 {
				first = f
			}
			if first == 0 || time.Since(t1) < first/2 {
				sn2 := s.A.snapshot()
				if sn2.Err == nil && sn2.State != ConnectionStateConnected {
					s.viol("C04", "timing:traffic-resumed-not-connected", fmt.Sprintf("traffic from the selected remote arrived %v ago (disconnected timeout %v) but the state after the tick is %s", time.Since(t1), d, sn2.State), nil)
				}
				if sn2.Err == nil {
					prev = sn2.State
				}
				r.count("traffic_resumed_samples", 1)
			} else if sn2 := s.A.snapshot(); sn2.Err == nil {
				prev = sn2.State
			}
			s.dropAll()
		}
	}
	r.distinct(fmt.Sprintf("timing/D=%v/F=%v/lite=%v/ctrl=%v/defaultD=%v/defaultF=%v", d, f, lite, controlling, nilD, nilF))
	if idx < 2 {
		s.A.mu.Lock()
		st := fmt.Sprint(s.A.states)
		s.A.mu.Unlock()
		r.sample(map[string]any{"idx": idx, "kind": "timing", "D": d.String(), "F": f.String(), "lite": lite, "notified_states": st})
	}
}

// vfC04Deadline: an agent that never selects a pair fails once D+F has passed since checking began.
func vfC04Deadline(e *vfEnv, r *vfResult, idx int) {
	s := newVfSession(e, r, idx, "c04deadline")
	defer s.closeAll()
	rng := s.rng
	d := []time.Duration{0, 4 * time.Millisecond, 10 * time.Millisecond}[rng.IntN(3)]
	f := []time.Duration{0, 5 * time.Millisecond, 12 * time.Millisecond}[rng.IntN(3)]
	lite := rng.IntN(5) == 0
	s.desc["disconnected_timeout"], s.desc["failed_timeout"], s.desc["lite"] = d.String(), f.String(), lite
	if err := s.setupAgentVsPeer(vfSideCfg{MaxBinding: 1000, DiscTimeout: d, FailTimeout: f, Lite: lite, TieBreaker: 99}, !lite && rng.IntN(2) == 0, 1, 1, rng.IntN(2) == 0); err != nil {
		r.inconclusive(1)

		return
	}
	var deadline time.Duration
	_ = s.A.a.loop.Run(s.A.a.loop, func(context.Context) { deadline = s.A.a.initialCheckingTimeout() })
	want := d + f
	if f == 0 {
		want = 0
	}
	r.eval(1)
	if deadline != want {
		s.viol("C04", "checking-deadline-value", fmt.Sprintf("initial checking deadline is %v, want %v (D=%v F=%v lite=%v, explicit)", deadline, want, d, f, lite), nil)
	}
	ta := time.Now()
	s.tickSide(s.A) // checking begins (for the timer) at this tick
	tb := time.Now()
	s.dropAll()
	restartMid := rng.IntN(4) == 0
	for k := 0; k < 4 && s.broken == ""; k++ {
		time.Sleep(time.Duration(rng.IntN(9)) * time.Millisecond)
		t3 := time.Now()
		s.tickSide(s.A)
		t4 := time.Now()
		s.dropAll()
		sn := s.A.snapshot()
		if sn.Err != nil {
			break
		}
		lo, hi := t3.Sub(tb), t4.Sub(ta)
		r.eval(1)
		switch {
		case want == 0 || hi <= want:
			r.count("deadline_samples_before", 1)
			if sn.State != ConnectionStateChecking {
				s.viol("C04", "checking-deadline-early:"+sn.State.String(), fmt.Sprintf("at most %v after checking began (deadline %v) the state is %s", hi, want, sn.State), nil)
			}
		case lo > want:
			r.count("deadline_samples_after", 1)
			if sn.State != ConnectionStateFailed {
				s.viol("C04", "checking-deadline-missed", fmt.Sprintf("at least %v after checking began (deadline %v) and no pair selected, but the state is %s", lo, want, sn.State), nil)
			}
		default:
			r.inconclusive(1)
		}
		if sn.State == ConnectionStateFailed {
			if restartMid {
				// Restart from Failed: Checking again with a fresh deadline
				s.restartStep(s.A)
				ta = time.Now()
				s.tickSide(s.A)
				tb = time.Now()
				if sn2 := s.A.snapshot(); sn2.Err == nil && want != 0 && tb.Sub(ta) < want && sn2.State != ConnectionStateChecking {
					s.viol("C04", "checking-deadline-not-reset-by-restart", fmt.Sprintf("first tick after Restart (%v after it) gave state %s", tb.Sub(ta), sn2.State), nil)
				}
				restartMid = false

				continue
			}

			break
		}
	}
	r.distinct(fmt.Sprintf("deadline/D=%v/F=%v/lite=%v", d, f, lite))
}

// vfC04Defaults compares the effective default timeouts and the computed deadline with the documentation.
func vfC04Defaults(r *vfResult) {
	for _, lite := range []bool{false, true} {
		for _, explicit := range []bool{false, true} {
			cfg := &AgentConfig{MulticastDNSMode: MulticastDNSModeDisabled, LoggerFactory: vfQuietLogger(), Lite: lite}
			if lite {
				cfg.CandidateTypes = []CandidateType{CandidateTypeHost}
			}
			dd := 7 * time.Second
			if explicit {
				cfg.DisconnectedTimeout = &dd
			}
			a, err := NewAgent(cfg)
			if err != nil {
				r.note("defaults: NewAgent: %v", err)

				continue
			}
			wantD := 5 * time.Second
			if lite {
				wantD = 10 * time.Second
			}
			wantDeadline := 5*time.Second + 25*time.Second
			if explicit {
				wantD, wantDeadline = dd, dd+25*time.Second
			}
			r.eval(1)
			r.distinct(fmt.Sprintf("defaults/lite=%v/explicit=%v", lite, explicit))
			if a.disconnectedTimeout != wantD || a.failedTimeout != 25*time.Second || a.initialCheckingTimeout() != wantDeadline {
				r.violation("default-timeouts", fmt.Sprintf("lite=%v explicit=%v: disconnected %v failed %v deadline %v; want %v / 25s / %v", lite, explicit, a.disconnectedTimeout, a.failedTimeout, a.initialCheckingTimeout(), wantD, wantDeadline), nil)
			}
			_ = a.Close()
		}
	}
}

// vfC04CloseRun: Close from a random state; the last notified state must be Closed and nothing follows it.
func vfC04CloseRun(e *vfEnv, r *vfResult, idx int) {
	s := newVfSession(e, r, idx, "c04close")
	defer s.closeAll()
	t := vfGenTopo(s)
	t.clearNAT()
	if err := s.setupPair(t, vfSideCfg{MaxBinding: 1000, TieBreaker: 5}, vfSideCfg{MaxBinding: 1000, TieBreaker: 6}, true, false); err != nil {
		r.inconclusive(1)

		return
	}
	pending, _ := s.signalList(t)
	s.chaos(s.rng.IntN(80), map[*vfSide]int{s.A: 20, s.B: 20}, &pending, true)
	x := s.A
	if s.rng.IntN(2) == 0 {
		x = s.B
	}
	before := x.snapshot()
	s.step("close", x.name, 0, "")
	if s.rng.IntN(2) == 0 {
		_ = x.a.GracefulClose()
	} else {
		_ = x.a.Close()
		time.Sleep(2 * time.Millisecond)
		_ = x.a.GracefulClose() // waits for the callback queues
	}
	x.closed = true
	vfForgetTicker(x.a)
	x.mu.Lock()
	states := append([]ConnectionState{}, x.states...)
	x.mu.Unlock()
	r.eval(1)
	r.distinct(fmt.Sprintf("close-from/%s", before.State))
	r.set("c04_edges", before.State.String()+"->Closed")
	if len(states) == 0 || states[len(states)-1] != ConnectionStateClosed {
		s.viol("C04", "close-last-state", fmt.Sprintf("%s closed from state %s; notified states %v do not end with Closed", x.name, before.State, states), nil)
	}
	for i, st := range states {
		if st == ConnectionStateClosed && i != len(states)-1 {
			s.viol("C04", "state-after-closed", fmt.Sprintf("%s: states notified after Closed: %v", x.name, states), nil)
		}
	}
	// the rest of the history is checked by the automaton up to the step before Close
	prev := ConnectionStateNew
	for _, st := range states {
		if st == prev {
			s.viol("C04", "state-repeat", fmt.Sprintf("%s: state %s notified twice in a row (%v)", x.name, st, states), nil)
		}
		prev = st
	}
}

func TestVerifC04(t *testing.T) {
	vfRun(t, "C04", func(e *vfEnv, r *vfResult) {
		if e.shard == 0 {
			vfC04Defaults(r)
		}
		n := e.n(1600, 100000)
		for i := 0; i < n; i++ {
			if e.only >= 0 && i != e.only {
				continue
			}
			switch i % 8 {
			case 0, 1, 2:
				vfC04Timing(e, r, i)
			case 3:
				vfC04Deadline(e, r, i)
			case 4:
				vfC04CloseRun(e, r, i)
			case 5:
				vfC01Run(e, r, i)
			default:
				vfC06Run(e, r, i) // Restart / Failed / filter variants with the automaton monitor
			}
		}
	})
}
