//go:build verif

package ice

// C15: the TCP mux routes connections by ufrag and cleans up after itself.
// Real loopback TCP, race detector on. Well-behaved clients tag every packet (client id,
// counter); per ufrag the packets read must be exactly what the clients addressed to that
// ufrag sent, in per-client order, with the client's address, and replies must come back on
// the sending client's socket. Hostile clients must be disconnected. After Close: listener
// gone, client connections closed, no mux goroutine left, file descriptors back to the census.

import (
	"encoding/binary"
	"errors"
	"fmt"
	"io"
	"math/rand/v2"
	"net"
	"os"
	"runtime"
	"strings"
	"sync"
	"testing"
	"time"

	"github.com/pion/stun/v3"
)

func vfFDCount() int {
	ents, err := os.ReadDir("/proc/self/fd")
	if err != nil {
		return -1
	}

	return len(ents)
}

func vfMuxGoroutines() []string {
	var out []string
	for _, g := range strings.Split(vfStacks(), "\n\n") {
		if strings.Contains(g, "/tcp_mux.go:") || strings.Contains(g, "/tcp_packet_conn.go:") {
			out = append(out, g)
		}
	}

	return out
}

type vfC15Read struct {
	data string
	addr string
}

func vfFrame(b []byte) []byte {
	out := make([]byte, 2+len(b))
	binary.BigEndian.PutUint16(out, uint16(len(b))) //nolint:gosec
	copy(out[2:], b)

	return out
}

func vfReadFrame(c net.Conn, d time.Duration) ([]byte, error) {
	_ = c.SetReadDeadline(time.Now().Add(d))
	var h [2]byte
	if _, err := io.ReadFull(c, h[:]); err != nil {
		return nil, err
	}
	b := make([]byte, binary.BigEndian.Uint16(h[:]))
	if _, err := io.ReadFull(c, b); err != nil {
		return nil, err
	}

	return b, nil
}

func vfC15Run(e *vfEnv, r *vfResult, idx int) { //nolint:cyclop,maintidx
	rng := e.rng(idx, "tcpmux")
	fdBefore := vfFDCount()
	ln, err := net.Listen("tcp", "127.0.0.1:0")
	if err != nil {
		r.inconclusive(1)

		return
	}
	firstTO, alive := 120*time.Millisecond, 150*time.Millisecond
	canary := newVfCanary()
	defer canary.close()
	var mux TCPMux
	inner := NewTCPMuxDefault(TCPMuxParams{Listener: ln, Logger: vfQuietLogger().NewLogger("ice"), ReadBufferSize: 16,
		WriteBufferSize: []int{0, 1 << 20}[rng.IntN(2)], FirstStunBindTimeout: firstTO, AliveDurationForConnFromStun: alive})
	mux = inner
	multi := rng.IntN(4) == 0
	if multi {
		mux = NewMultiTCPMuxDefault(inner)
	}
	addr := ln.Addr().String()
	nU := 1 + rng.IntN(4)
	ufrags := []string{}
	for i := 0; i < nU; i++ {
		ufrags = append(ufrags, fmt.Sprintf("uf%d", i))
	}
	var mu sync.Mutex
	reads := map[string][]vfC15Read{} // ufrag -> packets read from its connection
	conns := map[string]net.PacketConn{}
	var rwg, v6wg sync.WaitGroup
	// one history in three: the owners poll with short read deadlines (some already expired when the read starts), as
	// applications with their own timers do; a read that reports a timeout must not have consumed a packet
	polling := rng.IntN(3) == 0
	startReader := func(uf string, pc net.PacketConn) {
		rwg.Add(1)
		prng := rand.New(rand.NewPCG(e.seed+uint64(idx)*977, uint64(len(uf))+uint64(uf[len(uf)-1]))) //nolint:gosec
		go func() {
			defer rwg.Done()
			buf := make([]byte, 9000)
			errs := 0
			for {
				if polling {
					_ = pc.SetReadDeadline(time.Now().Add(time.Duration(prng.IntN(400)-50) * time.Microsecond))
				}
				n, a, err := pc.ReadFrom(buf)
				if err != nil {
					var ne net.Error
					if polling && errors.As(err, &ne) && ne.Timeout() {
						continue // poll again
					}
					// io.ErrClosedPipe: the packet connection (or this handle) is closed. Anything else is the end of
					// ONE TCP connection, reported with its address; the packet connection lives on.
					errs++
					if errors.Is(err, io.ErrClosedPipe) || errs > 10000 {
						return
					}

					continue
				}
				data := string(buf[:n])
				mu.Lock()
				reads[uf] = append(reads[uf], vfC15Read{data, a.String()})
				mu.Unlock()
				// echo application packets back to where they came from
				if !stun.IsMessage(buf[:n]) {
					_, _ = pc.WriteTo([]byte("re:"+data), a)
				}
			}
		}()
	}
	lateUfrag := ""
	for i, uf := range ufrags {
		if i == nU-1 && nU > 1 && rng.IntN(2) == 0 {
			lateUfrag = uf // registered only after a client has already named it (adoption of the provisional connection)

			continue
		}
		pc, err := mux.GetConnByUfrag(uf, false, net.IPv4(127, 0, 0, 1))
		if err != nil {
			r.inconclusive(1)
			_ = mux.Close()

			return
		}
		conns[uf] = pc
		startReader(uf, pc)
		// the same ufrag may also hold a connection of the other IP family (an agent with IPv6 candidates on this mux);
		// it goes away early or in the middle of the history and must not take the IPv4 registration with it
		if rng.IntN(3) == 0 {
			if pc6, err := mux.GetConnByUfrag(uf, true, net.ParseIP("::1")); err == nil {
				delay := time.Duration(rng.IntN(3000)) * time.Microsecond
				if rng.IntN(2) == 0 {
					_ = pc6.Close()
				} else {
					v6wg.Add(1)
					go func() { defer v6wg.Done(); time.Sleep(delay); _ = pc6.Close() }()
				}
				r.count("c15_ufrags_with_ipv6_conn_torn_down_early", 1)
			}
		}
	}
	defer v6wg.Wait()
	type clientRes struct {
		id          int
		ufrag       string
		kind        string
		sent        []string
		replies     []string
		local       string
		closedByMux bool
		err         string
		slowFirst   bool // the harness itself took more than half the first-frame timeout to get the first frame out: not judged
	}
	nC := 1 + rng.IntN(12)
	results := make([]*clientRes, nC)
	var cwg sync.WaitGroup
	for ci := 0; ci < nC; ci++ {
		crng := rand.New(rand.NewPCG(e.seed+uint64(idx)*53+uint64(ci), 61)) //nolint:gosec
		res := &clientRes{id: ci}
		results[ci] = res
		res.kind = []string{"good", "good", "good", "good", "unknown-ufrag", "garbage", "non-binding", "no-username", "oversized", "slow-loris", "connect-close", "trickle"}[crng.IntN(12)]
		res.ufrag = ufrags[crng.IntN(len(ufrags))]
		cwg.Add(1)
		go func() {
			defer cwg.Done()
			tDial := time.Now()
			c, err := net.DialTimeout("tcp", addr, 5*time.Second)
			if err != nil {
				res.err = err.Error()

				return
			}
			defer c.Close() //nolint:errcheck
			res.local = c.LocalAddr().String()
			user := res.ufrag + ":remote"
			expectEOF := func(bound time.Duration) {
				_ = c.SetReadDeadline(time.Now().Add(bound))
				b := make([]byte, 64)
				for {
					_, err := c.Read(b)
					if err != nil {
						var ne net.Error
						if errors.As(err, &ne) && ne.Timeout() {
							return
						}
						res.closedByMux = true

						return
					}
				}
			}
			switch res.kind {
			case "good", "unknown-ufrag":
				if res.kind == "unknown-ufrag" {
					res.ufrag = fmt.Sprintf("nobody%d", res.id)
					user = res.ufrag + ":remote"
				}
				first := vfStunWithUser(crng, &user)
				res.sent = append(res.sent, string(first))
				// the first frame may arrive in pieces
				fr := vfFrame(first)
				cut := 1 + crng.IntN(len(fr)-1)
				splitHeader := crng.IntN(4) == 0
				if splitHeader {
					cut = 1 // the two bytes of the length header arrive in separate segments
				}
				t0 := time.Now() // (the connection was accepted some time before this; the mux's deadline runs from its accept)
				_, _ = c.Write(fr[:cut])
				if splitHeader {
					time.Sleep(2 * time.Millisecond)
				} else if crng.IntN(2) == 0 {
					time.Sleep(time.Duration(crng.IntN(3)) * time.Millisecond)
				}
				_, _ = c.Write(fr[cut:])
				res.slowFirst = time.Since(tDial) > firstTO/2 || time.Since(t0) > firstTO/2
				nPk := crng.IntN(8)
				for k := 0; k < nPk; k++ {
					p := []byte(fmt.Sprintf("\x90c%d-%d-%d", idx, res.id, k))
					res.sent = append(res.sent, string(p))
					pf := vfFrame(p)
					if crng.IntN(5) == 0 {
						_, _ = c.Write(pf[:1]) // header of a later frame split as well
						time.Sleep(time.Millisecond)
						pf = pf[1:]
					}
					if _, err := c.Write(pf); err != nil {
						break
					}
				}
				if res.kind == "good" {
					for k := 0; k < nPk; k++ {
						b, err := vfReadFrame(c, 3*time.Second)
						if err != nil {
							res.err = "reply: " + err.Error()

							break
						}
						res.replies = append(res.replies, string(b))
					}
				} else {
					expectEOF(20 * alive)
				}
			case "garbage":
				b := make([]byte, 4+crng.IntN(60))
				for i := range b {
					b[i] = byte(crng.IntN(256))
				}
				binary.BigEndian.PutUint16(b, uint16(len(b)-2)) //nolint:gosec
				_, _ = c.Write(b)
				expectEOF(20 * firstTO)
			case "non-binding":
				m, _ := stun.Build(stun.NewType(stun.MethodAllocate, stun.ClassRequest), stun.TransactionID, stun.NewUsername(user))
				_, _ = c.Write(vfFrame(m.Raw))
				expectEOF(20 * firstTO)
			case "no-username":
				_, _ = c.Write(vfFrame(vfStunWithUser(crng, nil)))
				expectEOF(20 * firstTO)
			case "oversized":
				big := make([]byte, 600+crng.IntN(3000))
				_, _ = c.Write(vfFrame(big))
				expectEOF(20 * firstTO)
			case "slow-loris":
				_, _ = c.Write([]byte{0})
				expectEOF(20 * firstTO)
			case "trickle":
				// a first frame that keeps coming, one byte every quarter of the first-frame timeout: the timeout bounds
				// the whole first frame, not the silence between two bytes
				long := vfFrame(append(vfStunWithUser(crng, &user), make([]byte, 400)...))
				start := time.Now()
				for _, b := range long {
					if _, err := c.Write([]byte{b}); err != nil {
						res.closedByMux = true

						break
					}
					_ = c.SetReadDeadline(time.Now().Add(firstTO / 4))
					if _, err := c.Read(make([]byte, 8)); err != nil {
						var ne net.Error
						if !(errors.As(err, &ne) && ne.Timeout()) {
							res.closedByMux = true

							break
						}
					}
					if time.Since(start) > 20*firstTO {
						break
					}
				}
			case "connect-close":
				if crng.IntN(2) == 0 {
					_, _ = c.Write([]byte{0, 40, 1})
				}
			}
		}()
	}
	if lateUfrag != "" {
		time.Sleep(time.Duration(5+rng.IntN(40)) * time.Millisecond)
		if pc, err := mux.GetConnByUfrag(lateUfrag, false, net.IPv4(127, 0, 0, 1)); err == nil {
			conns[lateUfrag] = pc
			startReader(lateUfrag, pc)
		}
	}
	cdone := make(chan struct{})
	go func() { cwg.Wait(); close(cdone) }()
	select {
	case <-cdone:
	case <-time.After(60 * time.Second):
		r.violation("tcpmux-clients-stuck", fmt.Sprintf("history %d: clients did not finish", idx), map[string]any{"idx": idx, "stacks": vfStacks()})
		_ = mux.Close()

		return
	}
	// TCP is reliable: everything the good clients wrote (and closed after) still has to arrive; give the mux a
	// bounded moment to deliver it before handles are closed
	for dl := time.Now().Add(5 * time.Second); time.Now().Before(dl); time.Sleep(200 * time.Microsecond) {
		missing := false
		mu.Lock()
		for _, res := range results {
			if res.kind != "good" || res.slowFirst {
				continue
			}
			if _, registered := conns[res.ufrag]; !registered {
				continue
			}
			n := 0
			for _, x := range reads[res.ufrag] {
				if x.addr == res.local {
					n++
				}
			}
			if n < len(res.sent) {
				missing = true
			}
		}
		mu.Unlock()
		if !missing {
			break
		}
	}
	// a connection that stays open across Close, to check that Close closes it
	var lingering net.Conn
	if rng.IntN(2) == 0 {
		if c, err := net.DialTimeout("tcp", addr, 2*time.Second); err == nil {
			user := ufrags[0] + ":remote"
			_, _ = c.Write(vfFrame(vfStunWithUser(rng2(e, idx), &user)))
			lingering = c
			time.Sleep(2 * time.Millisecond)
		}
	}
	// handle Close / RemoveConnByUfrag at random before the mux goes away
	for uf, pc := range conns {
		switch rng.IntN(4) {
		case 0:
			_ = pc.Close()
		case 1:
			mux.RemoveConnByUfrag(uf)
		}
	}
	closeDone := make(chan struct{})
	go func() { _ = mux.Close(); close(closeDone) }()
	select {
	case <-closeDone:
	case <-time.After(30 * time.Second):
		r.violation("tcpmux-close-stuck", fmt.Sprintf("history %d: TCPMux.Close did not return", idx), map[string]any{"idx": idx, "stacks": vfStacks()})

		return
	}
	for _, pc := range conns {
		_ = pc.Close()
	}
	rdone := make(chan struct{})
	go func() { rwg.Wait(); close(rdone) }()
	select {
	case <-rdone:
	case <-time.After(20 * time.Second):
		r.violation("tcpmux-readers-stuck", fmt.Sprintf("history %d: readers of the packet connections did not return after Close", idx), map[string]any{"idx": idx, "stacks": vfStacks()})

		return
	}
	r.eval(1)
	wit := map[string]any{"idx": idx, "ufrags": ufrags, "late_ufrag": lateUfrag, "clients": nC, "multi_wrapper": multi, "polling_readers": polling}
	kinds := []string{}
	// ---- routing oracle
	mu.Lock()
	for _, res := range results {
		kinds = append(kinds, res.kind)
		if res.kind != "good" || res.err != "" && len(res.replies) == 0 && len(res.sent) == 0 {
			continue
		}
		if res.slowFirst {
			r.count("c15_good_clients_not_judged_slow_harness", 1) // the mux may rightly have closed it as late

			continue
		}
		if _, registered := conns[res.ufrag]; !registered {
			continue
		}
		if res.err != "" && canary.worst() > firstTO/4 {
			// this client was cut off, and during this history goroutines of this process were run up to canary.worst()
			// late: the mux's first-frame deadline (checked by the runtime before every read of handleConn) may have
			// passed before handleConn got to read what had long arrived
			r.count("c15_good_clients_not_judged_stalled_process", 1)

			continue
		}
		var got []string
		for _, x := range reads[res.ufrag] {
			if x.addr == res.local {
				got = append(got, x.data)
			}
		}
		if strings.Join(got, "|") != strings.Join(res.sent, "|") {
			sig := "tcpmux-routing"
			if len(got) > 0 && len(got) == len(res.sent)-1 && strings.Join(got, "|") == strings.Join(res.sent[1:], "|") {
				sig = "tcpmux-first-message-lost"
			}
			r.violation(sig, fmt.Sprintf("history %d: client %d sent %d packet(s) to ufrag %s from %s; its connection read %d of them in that order (first message included: %v)", idx, res.id, len(res.sent), res.ufrag, res.local, len(got), len(got) > 0 && got[0] == res.sent[0]), wit)
		}
		// nothing of this client on another ufrag's connection
		for uf, l := range reads {
			if uf == res.ufrag {
				continue
			}
			for _, x := range l {
				if x.addr == res.local {
					r.violation("tcpmux-cross-ufrag", fmt.Sprintf("history %d: a packet of client %d (ufrag %s) was read from the connection of ufrag %s", idx, res.id, res.ufrag, uf), wit)
				}
			}
		}
		// replies came back on the same TCP connection, in order
		want := []string{}
		for _, sp := range res.sent[1:] {
			want = append(want, "re:"+sp)
		}
		if strings.Join(res.replies, "|") != strings.Join(want, "|") {
			r.violation("tcpmux-replies", fmt.Sprintf("history %d: client %d got %d of %d replies on its own connection (%s)", idx, res.id, len(res.replies), len(want), res.err), wit)
		}
		r.count("c15_good_clients_checked", 1)
	}
	mu.Unlock()
	// ---- hostile clients were disconnected
	for _, res := range results {
		switch res.kind {
		case "garbage", "non-binding", "no-username", "oversized", "slow-loris", "unknown-ufrag", "trickle":
			if res.err == "" && !res.closedByMux {
				r.violation("tcpmux-hostile-left-open:"+res.kind, fmt.Sprintf("history %d: %s client %d was still connected after 20x the configured timeout", idx, res.kind, res.id), wit)
			}
			r.count("c15_hostile_clients_checked", 1)
		}
	}
	// ---- cleanup
	if lingering != nil {
		_ = lingering.SetReadDeadline(time.Now().Add(3 * time.Second))
		b := make([]byte, 16)
		_, err := lingering.Read(b)
		var ne net.Error
		if err == nil || (errors.As(err, &ne) && ne.Timeout()) {
			r.violation("tcpmux-connection-open-after-close", fmt.Sprintf("history %d: a client connection was still open 3 s after TCPMux.Close returned", idx), wit)
		}
		_ = lingering.Close()
	}
	if c, err := net.DialTimeout("tcp", addr, 500*time.Millisecond); err == nil {
		_ = c.Close()
		r.violation("tcpmux-listener-open-after-close", fmt.Sprintf("history %d: the listener still accepts after Close", idx), wit)
	}
	var left []string
	for i := 0; i < 200; i++ {
		left = vfMuxGoroutines()
		if len(left) == 0 {
			break
		}
		time.Sleep(5 * time.Millisecond)
	}
	if len(left) > 0 {
		r.violation("tcpmux-goroutine-left", fmt.Sprintf("history %d: %d mux goroutine(s) still alive 1 s after Close returned", idx, len(left)), map[string]any{"idx": idx, "goroutines": left})
	}
	runtime.GC()
	fdAfter := vfFDCount()
	for i := 0; i < 100 && fdAfter > fdBefore; i++ {
		time.Sleep(5 * time.Millisecond)
		fdAfter = vfFDCount()
	}
	if fdBefore >= 0 && fdAfter > fdBefore {
		r.violation("tcpmux-fd-leak", fmt.Sprintf("history %d: %d file descriptors before, %d after Close", idx, fdBefore, fdAfter), wit)
	}
	r.distinct(fmt.Sprintf("tcpmux/u%d/late=%v/c%d/multi=%v/poll=%v/%v", nU, lateUfrag != "", nC, multi, polling, kindSet(kinds)))
	if idx < 3 {
		wit["client_kinds"] = kinds
		r.sample(wit)
	}
}

// vfC15LiveMuxGoroutines lists mux goroutines that have certainly not ended: still inside handleConn, the accept loop,
// or the per-connection close watcher (a goroutine past those frames is running its deferred wg.Done and is not counted).
func vfC15LiveMuxGoroutines() []string {
	var out []string
	for _, g := range strings.Split(vfStacks(), "\n\n") {
		if strings.Contains(g, "(*TCPMuxDefault).handleConn(") || strings.Contains(g, "(*TCPMuxDefault).start(") ||
			strings.Contains(g, "(*TCPMuxDefault).removeConnByUfragAndLocalHost(") || strings.Contains(g, "(*tcpPacketConn).AddConn.func") {
			out = append(out, g)
		}
	}

	return out
}

// vfC15CloseOverlap: EVERY Close call that returns must return after all the mux's goroutines have ended - also a
// Close that overlaps or follows another one.  Silent clients keep handleConn goroutines parked on the first-frame
// read (Close does not interrupt those; they end at FirstStunBindTimeout).
func vfC15CloseOverlap(e *vfEnv, r *vfResult, idx int) {
	rng := e.rng(idx, "tcpmux-closeoverlap")
	ln, err := net.Listen("tcp", "127.0.0.1:0")
	if err != nil {
		r.inconclusive(1)

		return
	}
	firstTO := time.Duration(150+rng.IntN(250)) * time.Millisecond
	mux := NewTCPMuxDefault(TCPMuxParams{Listener: ln, Logger: vfQuietLogger().NewLogger("ice"), ReadBufferSize: 16,
		FirstStunBindTimeout: firstTO, AliveDurationForConnFromStun: 200 * time.Millisecond})
	pc, err := mux.GetConnByUfrag("ufo", false, net.IPv4(127, 0, 0, 1))
	if err != nil {
		r.inconclusive(1)
		_ = mux.Close()

		return
	}
	nSilent := 1 + rng.IntN(3)
	var clients []net.Conn
	for i := 0; i < nSilent+1; i++ {
		c, err := net.DialTimeout("tcp", ln.Addr().String(), 2*time.Second)
		if err != nil {
			continue
		}
		clients = append(clients, c)
		if i == nSilent { // one attached client
			user := "ufo:remote"
			_, _ = c.Write(vfFrame(vfStunWithUser(rng, &user)))
		} else if rng.IntN(2) == 0 {
			_, _ = c.Write([]byte{0})
		}
	}
	defer func() {
		for _, c := range clients {
			_ = c.Close()
		}
		_ = pc.Close()
	}()
	// wait until the silent clients are parked in handleConn (bounded; otherwise nothing to observe)
	parked := 0
	for dl := time.Now().Add(2 * time.Second); time.Now().Before(dl); time.Sleep(200 * time.Microsecond) {
		parked = 0
		for _, g := range vfC15LiveMuxGoroutines() {
			if strings.Contains(g, "(*TCPMuxDefault).handleConn(") {
				parked++
			}
		}
		if parked >= nSilent {
			break
		}
	}
	nClose := 2 + rng.IntN(2)
	type ret struct {
		k     int
		alive []string
	}
	rets := make(chan ret, nClose)
	sequentialSecond := rng.IntN(4) == 0
	for k := 0; k < nClose; k++ {
		stagger := time.Duration(rng.IntN(3000)) * time.Microsecond
		if k == 0 {
			stagger = 0
		}
		go func() {
			time.Sleep(stagger)
			_ = mux.Close()
			rets <- ret{k, vfC15LiveMuxGoroutines()}
		}()
		if sequentialSecond && k == 0 {
			x := <-rets
			rets <- x
		}
	}
	r.eval(1)
	for k := 0; k < nClose; k++ {
		select {
		case x := <-rets:
			if len(x.alive) > 0 {
				r.violation("tcpmux-close-returned-before-goroutines-ended", fmt.Sprintf("history %d: Close call #%d of %d (overlapping: %v) returned while %d mux goroutine(s) were still running (%d silent client(s) parked in handleConn)", idx, x.k, nClose, !sequentialSecond, len(x.alive), parked),
					map[string]any{"idx": idx, "goroutines": x.alive, "closes": nClose, "silent_clients": nSilent})

				return
			}
		case <-time.After(30 * time.Second):
			r.violation("tcpmux-close-stuck", fmt.Sprintf("history %d: one of %d overlapping Close calls did not return", idx, nClose), map[string]any{"idx": idx, "stacks": vfStacks()})

			return
		}
	}
	r.count("c15_overlapping_close_calls", int64(nClose))
	r.distinct(fmt.Sprintf("tcpmux-closeoverlap/closes%d/silent%d/parked%d/seq=%v", nClose, nSilent, parked, sequentialSecond))
}

// vfC15Provisional: the life of a connection created for a ufrag nobody has registered yet.  Claimed by its owner
// (GetConnByUfrag) it must stop expiring - whatever connects to it afterwards - and keep delivering; unclaimed it must
// expire although a hostile client keeps reconnecting to it.
func vfC15Provisional(e *vfEnv, r *vfResult, idx int) { //nolint:cyclop
	rng := e.rng(idx, "tcpmux-provisional")
	ln, err := net.Listen("tcp", "127.0.0.1:0")
	if err != nil {
		r.inconclusive(1)

		return
	}
	alive := 100 * time.Millisecond
	mux := NewTCPMuxDefault(TCPMuxParams{Listener: ln, Logger: vfQuietLogger().NewLogger("ice"), ReadBufferSize: 16,
		FirstStunBindTimeout: 2 * time.Second, AliveDurationForConnFromStun: alive})
	defer mux.Close() //nolint:errcheck
	addr := ln.Addr().String()
	user := "prov:remote"
	dial := func() net.Conn {
		c, err := net.DialTimeout("tcp", addr, 2*time.Second)
		if err != nil {
			return nil
		}
		_, _ = c.Write(vfFrame(vfStunWithUser(rng, &user)))

		return c
	}
	tFirst := time.Now() // the provisional connection's alive timer starts some time after this instant
	first := dial()
	if first == nil {
		r.inconclusive(1)

		return
	}
	defer first.Close() //nolint:errcheck
	claim := rng.IntN(3) != 0
	r.eval(1)
	if !claim {
		// never claimed; a hostile client reconnects every 0.6 x alive for 10 x alive
		hostile := rng.IntN(2) == 0
		var extra []net.Conn
		for k := 0; k < 17; k++ {
			time.Sleep(alive * 6 / 10)
			if hostile {
				if c := dial(); c != nil {
					extra = append(extra, c)
				}
			}
		}
		_ = first.SetReadDeadline(time.Now().Add(5 * alive))
		_, err := first.Read(make([]byte, 16))
		var ne net.Error
		if err == nil || (errors.As(err, &ne) && ne.Timeout()) {
			r.violation("tcpmux-provisional-never-expired", fmt.Sprintf("history %d: a connection to a ufrag nobody registered was still open 15x the alive duration after it was made (a client reconnecting to the same ufrag every 0.6x alive: %v)", idx, hostile),
				map[string]any{"idx": idx, "reconnecting_client": hostile})
		}
		for _, c := range extra {
			_ = c.Close()
		}
		r.distinct(fmt.Sprintf("tcpmux-provisional/unclaimed/hostile=%v", hostile))

		return
	}
	time.Sleep(time.Duration(rng.IntN(30)) * time.Millisecond)
	nBefore := rng.IntN(2)
	clients := []net.Conn{first}
	for k := 0; k < nBefore; k++ {
		if c := dial(); c != nil {
			clients = append(clients, c)
		}
	}
	time.Sleep(time.Duration(rng.IntN(10)) * time.Millisecond)
	pc, err := mux.GetConnByUfrag("prov", false, net.IPv4(127, 0, 0, 1))
	if err != nil {
		r.inconclusive(1)

		return
	}
	defer pc.Close() //nolint:errcheck
	if time.Since(tFirst) > alive*7/10 {
		// the harness was too slow (it plans at most 40 ms between the first connection and the claim): the provisional
		// connection may rightly have expired before it was claimed
		r.count("c15_provisional_claims_not_judged_slow_harness", 1)

		return
	}
	var mu sync.Mutex
	got := map[string][]string{}
	go func() {
		buf := make([]byte, 2000)
		errs := 0
		for {
			n, a, err := pc.ReadFrom(buf)
			if err != nil {
				errs++
				if errors.Is(err, io.ErrClosedPipe) || errs > 10000 {
					return
				}

				continue
			}
			if !stun.IsMessage(buf[:n]) {
				mu.Lock()
				got[a.String()] = append(got[a.String()], string(buf[:n]))
				mu.Unlock()
				_, _ = pc.WriteTo([]byte("re:"+string(buf[:n])), a)
			}
		}
	}()
	nAfter := rng.IntN(3)
	for k := 0; k < nAfter; k++ {
		time.Sleep(time.Duration(rng.IntN(20)) * time.Millisecond)
		if c := dial(); c != nil {
			clients = append(clients, c)
		}
	}
	defer func() {
		for _, c := range clients[1:] {
			_ = c.Close()
		}
	}()
	time.Sleep(3 * alive)
	// long after the alive duration every attached client still exchanges packets with the owner
	for ci, c := range clients {
		p := fmt.Sprintf("\x90late-%d-%d", idx, ci)
		_, werr := c.Write(vfFrame([]byte(p)))
		b, rerr := vfReadFrame(c, 3*time.Second)
		if werr != nil || rerr != nil || string(b) != "re:"+p {
			r.violation("tcpmux-claimed-connection-expired", fmt.Sprintf("history %d: the owner claimed the provisional connection with GetConnByUfrag; %d client(s) connected before and %d after the claim; 3x the alive duration later client %d gets no reply on its connection (write: %v, read: %v)", idx, 1+nBefore, nAfter, ci, werr, rerr),
				map[string]any{"idx": idx, "clients_before_claim": 1 + nBefore, "clients_after_claim": nAfter, "client": ci})

			return
		}
	}
	r.count("c15_claimed_clients_checked", int64(len(clients)))
	r.distinct(fmt.Sprintf("tcpmux-provisional/claimed/before%d/after%d", 1+nBefore, nAfter))
}

func rng2(e *vfEnv, idx int) *rand.Rand { return e.rng(idx, "tcpmux-extra") }

func kindSet(k []string) string {
	m := map[string]bool{}
	for _, x := range k {
		m[x] = true
	}

	return strings.Join(vfSortedKeys(m), ",")
}

// vfC15FullQueueClose: the owner of a ufrag does not read (or is behind); the peer has sent more packets than the
// receive queue holds, so the connection's reader is parked handing one over.  Mux Close / RemoveConnByUfrag / closing
// the owner's handle must still return, with every goroutine gone.
func vfC15FullQueueClose(e *vfEnv, r *vfResult, idx int) {
	rng := e.rng(idx, "tcpmux-fullqueue")
	ln, err := net.Listen("tcp", "127.0.0.1:0")
	if err != nil {
		r.inconclusive(1)

		return
	}
	mux := NewTCPMuxDefault(TCPMuxParams{Listener: ln, Logger: vfQuietLogger().NewLogger("ice"), ReadBufferSize: rng.IntN(3),
		FirstStunBindTimeout: 2 * time.Second, AliveDurationForConnFromStun: 2 * time.Second})
	closed := make(chan struct{})
	defer func() { // bounded: on a tree where the reader never lets go the mux cannot finish closing
		go func() { _ = mux.Close(); close(closed) }()
		select {
		case <-closed:
		case <-time.After(5 * time.Second):
		}
	}()
	pc, err := mux.GetConnByUfrag("full", false, net.IPv4(127, 0, 0, 1))
	if err != nil {
		r.inconclusive(1)

		return
	}
	c, err := net.DialTimeout("tcp", ln.Addr().String(), 2*time.Second)
	if err != nil {
		r.inconclusive(1)

		return
	}
	defer c.Close() //nolint:errcheck
	user := "full:remote"
	_, _ = c.Write(vfFrame(vfStunWithUser(rng, &user)))
	for k := 0; k < 6+rng.IntN(8); k++ {
		_, _ = c.Write(vfFrame([]byte(fmt.Sprintf("\x90full-%d-%d", idx, k))))
	}
	parked := func() bool {
		for _, g := range strings.Split(vfStacks(), "\n\n") {
			if strings.Contains(g, "(*tcpPacketConn).handleRecv") || (strings.Contains(g, "(*tcpPacketConn).AddConn.func1") && strings.Contains(g, "[select")) {
				return true
			}
		}

		return false
	}
	for dl := time.Now().Add(3 * time.Second); !parked() && time.Now().Before(dl); time.Sleep(300 * time.Microsecond) {
	}
	if !parked() {
		r.count("c15_full_queue_not_reached", 1)

		return
	}
	how := []string{"mux.Close", "RemoveConnByUfrag", "handle.Close"}[rng.IntN(3)]
	done := make(chan struct{})
	go func() {
		defer close(done)
		switch how {
		case "mux.Close":
			_ = mux.Close()
		case "RemoveConnByUfrag":
			mux.RemoveConnByUfrag("full")
		default:
			_ = pc.Close()
		}
	}()
	r.eval(1)
	ok, stuck, dump := vfAwaitOrStuck(done, 3*time.Second)
	switch {
	case ok:
		r.count("c15_full_queue_closes_checked", 1)
	case stuck:
		r.violation("tcpmux-close-stuck:receive-queue-full", fmt.Sprintf("history %d: %s did not return while a connection's reader was handing a packet to the full receive queue of its ufrag: the involved goroutines are parked in the same frames in two dumps", idx, how),
			map[string]any{"idx": idx, "how": how, "stacks": dump})
	default:
		r.inconclusive(1)
	}
	r.distinct("tcpmux-fullqueue/" + how)
}

func TestVerifC15(t *testing.T) {
	vfRun(t, "C15", func(e *vfEnv, r *vfResult) {
		// warm-up: the runtime opens its poller descriptors on first network use; keep that out of the fd census
		if ln, err := net.Listen("tcp", "127.0.0.1:0"); err == nil {
			if c, err := net.Dial("tcp", ln.Addr().String()); err == nil {
				_ = c.Close()
			}
			_ = ln.Close()
		}
		n := e.n(160, 5000)
		for i := 0; i < n; i++ {
			switch {
			case i%8 == 3:
				vfC15CloseOverlap(e, r, i)
			case i%8 == 6:
				vfC15Provisional(e, r, i)
			case i%16 == 1:
				vfC15FullQueueClose(e, r, i)
			default:
				vfC15Run(e, r, i)
			}
		}
	})
}
