//go:build verif

package ice

// E1 session layer: agents over the simnet, step primitives, snapshots taken
// inside a task-loop task, and the monitors that run after every step
// (C03 selection legitimacy, C04 state automaton, C06 bookkeeping).

import (
	"context"
	"fmt"
	"math/rand/v2"
	"net"
	"net/netip"
	"sort"
	"strconv"
	"strings"
	"sync"
	"time"

	"github.com/pion/stun/v3"
)

type vfSideCfg struct {
	Name         string
	IPs          []string
	Lite         bool
	Renomination bool
	MaxBinding   uint16
	DiscTimeout  time.Duration
	FailTimeout  time.Duration
	Keepalive    *time.Duration
	CheckPrio    bool // WithEnableUseCandidateCheckPriority (lite)
	RemoteFilter func(ip netip.Addr) bool
	NetworkTypes []NetworkType
	TieBreaker   uint64
	Ufrag, Pwd   string
	NilDisc      bool   // leave DisconnectedTimeout unset: the documented default applies (5 s, lite 10 s); DiscTimeout is set to it
	NilFail      bool   // leave FailedTimeout unset: default 25 s; FailTimeout is set to it
	NomAttr      uint16 // WithNominationAttribute: a custom STUN attribute type for the nomination value
	AutoRenom    bool   // WithAutomaticRenomination (1 ns interval): the controlling agent renominates on its own during check rounds
	TCPActive    bool   // TCP4 enabled without a TCP mux and with active ICE-TCP left on: a passive TCP remote makes the agent create active local candidates (their dials fail at once: the simulated addresses do not exist on this machine)
	TCPPassive   bool   // also gather ICE-TCP passive host candidates through the simulated TCP mux (active TCP disabled)
}

type vfSide struct {
	cfg   vfSideCfg
	name  string
	a     *Agent
	conn  *Conn
	tick  func()
	sess  *vfSession
	ticks int

	mu        sync.Mutex
	states    []ConnectionState
	cands     []Candidate
	candNils  int
	selEvents []string
	inState   int32

	controlling        bool
	gen                int
	ufrag, pwd         string
	oldUfrag, oldPwd   string // credentials of the generation ended by Restart
	localCandsAll      []string
	otherTransportAddr netip.AddrPort // address told to this side only as a remote TCP candidate
	started            bool
	restartedAt        int // step of the last Restart (for the C04 Checking edge)

	// shadow state of the monitors
	prevSel       string
	prevSelPrio   [2]uint32
	stateCursor   int
	lastState     ConnectionState
	pairAddr      map[uint64]string // pair id -> "local|remote" within the generation
	maxPairID     uint64
	prevSnapState ConnectionState
	told          map[string]bool // transport addresses this side was told as remote candidates (this generation)
	filtered      map[string]bool // addresses the remote IP filter rejects
	closed        bool
}

type vfStep struct {
	N    int    `json:"n"`
	Op   string `json:"op"`
	Who  string `json:"who,omitempty"`
	ID   int    `json:"dgram,omitempty"`
	Note string `json:"note,omitempty"`
}

type vfSession struct {
	beforeStart       func()   // optional: runs in setupPair after gathering, before the agents are started
	afterRegather     func()   // optional: runs in coordinatedRestart after both sides regathered, before remote credentials are set again
	forgeValidTCP     bool     // C02: the next forged message is a valid check from a new TCP peer address to a TCP passive candidate
	mdnsSignalling    bool     // C06: signalled host candidates are sometimes mDNS names (already resolved, as the agent would)
	mappedSignalling  bool     // C06: signalled IPv4 candidates are sometimes spelled ::ffff:a.b.c.d
	peerMute          bool     // C03: the scripted peer withholds every response
	flooded           bool     // C07: the receive-buffer flood was done in this session
	agents            sync.Map // side name -> *Agent (read from the switch's emit hook)
	ucMu              sync.Mutex
	ucWhileControlled []string // USE-CANDIDATE requests that left an agent while its role was controlled
	forgeUnstarted    bool     // C02: forged messages may also be injected into an agent that was not started yet
	e                 *vfEnv
	r                 *vfResult
	rng               *rand.Rand
	sw                *vfSwitch
	A, B              *vfSide
	P                 *vfPeer
	dataSt            map[*vfSide]*vfDataState
	steps             []vfStep
	stepN             int
	idx               int
	desc              map[string]any
	start             time.Time
	broken            string // set when the harness itself lost quiescence: the run becomes inconclusive
	mon               struct{ c03, c04, c06, c07 bool }
	// expectations maintained by workloads
	noPairPossible bool
}

func (s *vfSession) sides() []*vfSide {
	out := []*vfSide{}
	if s.A != nil {
		out = append(out, s.A)
	}
	if s.B != nil {
		out = append(out, s.B)
	}

	return out
}

func (s *vfSession) other(x *vfSide) *vfSide {
	if x == s.A {
		return s.B
	}

	return s.A
}

func newVfSession(e *vfEnv, r *vfResult, idx int, stream string) *vfSession {
	s := &vfSession{e: e, r: r, rng: e.rng(idx, stream), sw: newVfSwitch(), idx: idx, desc: map[string]any{}, start: time.Now()}
	s.mon.c03, s.mon.c04, s.mon.c06 = true, true, true
	// role at the moment of emission: the send happens inside a loop task, so the (atomic) role read here is the
	// role the agent had when it decided to send
	s.sw.onEmit = func(d *vfDgram) {
		if d.Forged || d.Stun == nil || d.Stun.Class != "request" || !d.Stun.UseCand {
			return
		}
		if v, ok := s.agents.Load(d.Emitter); ok {
			if a, _ := v.(*Agent); a != nil && !a.isControlling.Load() {
				s.ucMu.Lock()
				s.ucWhileControlled = append(s.ucWhileControlled, fmt.Sprintf("%s -> %s (datagram #%d, nomination %v)", d.SrcPriv, d.Dst, d.ID, d.Stun.Nomination != nil))
				s.ucMu.Unlock()
			}
		}
	}

	return s
}

func (s *vfSession) witness(extra map[string]any) map[string]any {
	w := map[string]any{"idx": s.idx, "desc": s.desc, "steps": s.steps}
	if len(s.steps) > 400 {
		w["steps"] = s.steps[len(s.steps)-400:]
	}
	for _, x := range s.sides() {
		x.mu.Lock()
		st := []string{}
		for _, c := range x.states {
			st = append(st, c.String())
		}
		w["states_"+x.name] = st
		w["selected_events_"+x.name] = append([]string{}, x.selEvents...)
		x.mu.Unlock()
	}
	wire := s.sw.wireFrom(0)
	if len(wire) > 300 {
		wire = wire[len(wire)-300:]
	}
	w["wire_tail"] = wire
	for k, v := range extra {
		w[k] = v
	}

	return w
}

// viol records a violation of property prop; only violations of the property under check are kept.
func (s *vfSession) viol(prop, sig, msg string, extra map[string]any) {
	if prop != s.e.prop {
		s.r.count("other_property_violations_seen:"+prop, 1)

		return
	}
	s.r.violation(sig, msg, s.witness(extra))
}

func (s *vfSession) step(op, who string, id int, note string) {
	s.stepN++
	s.sw.setStep(s.stepN)
	s.steps = append(s.steps, vfStep{N: s.stepN, Op: op, Who: who, ID: id, Note: note})
}

// ---------------------------------------------------------------- sides

func (s *vfSession) newSide(cfg vfSideCfg) (*vfSide, error) {
	zero := time.Duration(0)
	mb := cfg.MaxBinding
	if mb == 0 {
		mb = 7
	}
	nts := cfg.NetworkTypes
	if nts == nil {
		nts = []NetworkType{NetworkTypeUDP4, NetworkTypeUDP6}
	}
	if cfg.NilDisc {
		cfg.DiscTimeout = 5 * time.Second
		if cfg.Lite {
			cfg.DiscTimeout = 10 * time.Second
		}
	}
	if cfg.NilFail {
		cfg.FailTimeout = 25 * time.Second
	}
	dt, ft := cfg.DiscTimeout, cfg.FailTimeout
	ac := &AgentConfig{
		Net: vfSimpleNet(s.sw, cfg.Name, cfg.IPs...), NetworkTypes: nts,
		CandidateTypes: []CandidateType{CandidateTypeHost}, MulticastDNSMode: MulticastDNSModeDisabled,
		DisconnectedTimeout: &dt, FailedTimeout: &ft,
		HostAcceptanceMinWait: &zero, PrflxAcceptanceMinWait: &zero, SrflxAcceptanceMinWait: &zero, RelayAcceptanceMinWait: &zero,
		MaxBindingRequests: &mb, LoggerFactory: vfQuietLogger(), Lite: cfg.Lite,
		KeepaliveInterval: cfg.Keepalive, LocalUfrag: cfg.Ufrag, LocalPwd: cfg.Pwd,
		IncludeLoopback: false,
	}
	if cfg.TCPPassive {
		ac.NetworkTypes = append(append([]NetworkType{}, nts...), NetworkTypeTCP4)
		ac.TCPMux = &vfSimTCPMux{sw: s.sw, owner: cfg.Name}
		ac.DisableActiveTCP = true
	}
	if cfg.TCPActive && !cfg.TCPPassive {
		ac.NetworkTypes = append(append([]NetworkType{}, nts...), NetworkTypeTCP4)
	}
	if cfg.NilDisc {
		ac.DisconnectedTimeout = nil
	}
	if cfg.NilFail {
		ac.FailedTimeout = nil
	}
	x := &vfSide{cfg: cfg, name: cfg.Name, sess: s, pairAddr: map[uint64]string{}, told: map[string]bool{}, filtered: map[string]bool{}}
	if cfg.RemoteFilter != nil {
		f := cfg.RemoteFilter
		ac.RemoteIPFilter = func(ip net.IP) bool {
			a, _ := netip.AddrFromSlice(ip)

			return f(a.Unmap())
		}
	}
	var opts []AgentOption
	if cfg.Renomination {
		opts = append(opts, WithRenomination(DefaultNominationValueGenerator()))
	}
	if cfg.CheckPrio {
		opts = append(opts, WithEnableUseCandidateCheckPriority())
	}
	if cfg.AutoRenom {
		opts = append(opts, WithAutomaticRenomination(time.Nanosecond))
	}
	if cfg.NomAttr != 0 {
		opts = append(opts, WithNominationAttribute(cfg.NomAttr))
	}
	a, err := newAgentFromConfig(ac, opts...)
	if err != nil {
		return nil, err
	}
	x.a = a
	s.agents.Store(cfg.Name, a)
	if cfg.TieBreaker != 0 {
		a.tieBreaker = cfg.TieBreaker
	}
	vfWantTicker(a)
	_ = a.OnConnectionStateChange(func(cs ConnectionState) {
		x.mu.Lock()
		x.inState++
		if x.inState != 1 {
			s.r.count("c11_overlap_state_handler", 1)
		}
		x.states = append(x.states, cs)
		x.inState--
		x.mu.Unlock()
	})
	_ = a.OnCandidate(func(c Candidate) {
		x.mu.Lock()
		if c == nil {
			x.candNils++
		} else {
			x.cands = append(x.cands, c)
		}
		x.mu.Unlock()
	})
	_ = a.OnSelectedCandidatePairChange(func(l, r Candidate) {
		x.mu.Lock()
		x.selEvents = append(x.selEvents, vfCandAddr(l)+"->"+vfCandAddr(r))
		x.mu.Unlock()
	})
	x.ufrag, x.pwd, _ = a.GetLocalUserCredentials()
	s.sw.addPwd(fmt.Sprintf("%s.g%d", x.name, x.gen), x.pwd)

	return x, nil
}

func vfCandAddr(c Candidate) string {
	if c == nil {
		return "nil"
	}

	// transport addresses are compared canonically: a peer may spell an IPv4 address as ::ffff:a.b.c.d, or name it
	// (mDNS) and have it resolved
	addr := c.Address()
	if ip, err := netip.ParseAddr(addr); err == nil {
		addr = ip.Unmap().String()
	} else if ra := c.addr(); ra != nil {
		if ap := netAddrToAddrPort(ra); ap.IsValid() {
			addr = ap.Addr().Unmap().String()
		}
	}

	return c.NetworkType().NetworkShort() + "/" + net.JoinHostPort(addr, strconv.Itoa(c.Port()))
}

func vfCandAP(c Candidate) netip.AddrPort {
	ip, err := netip.ParseAddr(c.Address())
	if err != nil {
		if ra := c.addr(); ra != nil { // a resolved mDNS name
			if ap := netAddrToAddrPort(ra); ap.IsValid() {
				return netip.AddrPortFrom(ap.Addr().Unmap(), ap.Port())
			}
		}

		return netip.AddrPort{}
	}

	return netip.AddrPortFrom(ip.Unmap(), uint16(c.Port())) //nolint:gosec
}

// gather runs one gathering cycle and waits for its nil candidate.
func (x *vfSide) gather() error {
	x.mu.Lock()
	before := x.candNils
	x.cands = nil
	x.mu.Unlock()
	if err := x.a.GatherCandidates(); err != nil {
		return err
	}
	deadline := time.Now().Add(20 * time.Second)
	for {
		x.mu.Lock()
		n := x.candNils
		x.mu.Unlock()
		if n > before {
			x.rememberCands()

			return x.awaitReaders()
		}
		if time.Now().After(deadline) {
			return fmt.Errorf("%w: gathering did not complete", errVfQuiesce)
		}
		time.Sleep(20 * time.Microsecond)
	}
}

// localCandsAll: marshalled form of every local candidate this side ever published (all generations).
func (x *vfSide) rememberCands() {
	x.mu.Lock()
	defer x.mu.Unlock()
	for _, c := range x.cands {
		x.localCandsAll = append(x.localCandsAll, c.Marshal())
	}
}

func (x *vfSide) localCands() []Candidate {
	x.mu.Lock()
	defer x.mu.Unlock()

	return append([]Candidate{}, x.cands...)
}

func (x *vfSide) start(controlling bool, peerUfrag, peerPwd string) error {
	var err error
	x.controlling = controlling
	if controlling {
		x.conn, err = x.a.StartDial(peerUfrag, peerPwd)
	} else {
		x.conn, err = x.a.StartAccept(peerUfrag, peerPwd)
	}
	if err != nil {
		return err
	}
	x.started = true
	x.tick, err = vfAwaitTicker(x.a)
	if err != nil {
		return err
	}

	return x.awaitReaders()
}

// awaitReaders waits until the read loop of every open socket of this side is parked in
// ReadFrom, so that a delivery cannot race with the start of the candidate's goroutine.
func (x *vfSide) awaitReaders() error {
	if !x.started {
		return nil
	}
	deadline := time.Now().Add(20 * time.Second)
	// only sockets that carry a local candidate have a read loop (a TURN control socket, for one, has none)
	held := map[*vfConn]bool{}
	_ = x.a.loop.Run(x.a.loop, func(context.Context) {
		for _, set := range x.a.localCandidates {
			for _, c := range set {
				var pc net.PacketConn
				switch v := c.(type) {
				case *CandidateHost:
					pc = v.conn
				case *CandidateServerReflexive:
					pc = v.conn
				case *CandidatePeerReflexive:
					pc = v.conn
				case *CandidateRelay:
					pc = v.conn
				}
				if vc, ok := pc.(*vfConn); ok {
					held[vc] = true
				}
			}
		}
	})
	for _, c := range x.sess.sw.openSockets(x.name) {
		if !held[c] {
			continue
		}
		for c.waiting.Load() == 0 && !c.isClosed() {
			if time.Now().After(deadline) {
				return fmt.Errorf("%w: read loop of %s never started", errVfQuiesce, c.local)
			}
			time.Sleep(5 * time.Microsecond)
		}
	}

	return nil
}

// addRemote gives the agent a remote candidate inside one loop task (what
// AddRemoteCandidate does asynchronously), so that the step is synchronous.
func (x *vfSide) addRemote(c Candidate) {
	if c.TCPType() == TCPTypeActive {
		// the refusal of TCP-active remote candidates lives in the public method: go through it and wait for the
		// goroutine it may have started (there must be nothing to wait for)
		_ = x.a.AddRemoteCandidate(c)
		for dl := time.Now().Add(5 * time.Second); time.Now().Before(dl); time.Sleep(50 * time.Microsecond) {
			if !strings.Contains(vfStacks(), "(*Agent).AddRemoteCandidate.func") {
				break
			}
		}
		_ = x.a.loop.Run(x.a.loop, func(context.Context) {})

		return
	}
	x.told[vfCandAddr(c)] = true
	_ = x.a.loop.Run(x.a.loop, func(context.Context) { x.a.addRemoteCandidate(c) })
}

func (x *vfSide) doTick() {
	x.ticks++
	x.tick()
}

func (x *vfSide) close() {
	if x.closed {
		return
	}
	x.closed = true
	_ = x.a.Close()
	vfForgetTicker(x.a)
}

// ---------------------------------------------------------------- snapshots

type vfPairSnap struct {
	ID           uint64
	Local        string
	Remote       string
	LType        CandidateType
	RType        CandidateType
	State        CandidatePairState
	Nominated    bool
	NomOnSucc    bool
	Prio         uint64
	LPrio        uint32
	RPrio        uint32
	ReqCount     uint16
	ReqSent      uint64
	ReqRecv      uint64
	RespSent     uint64
	RespRecv     uint64
	PktSent      uint32
	PktRecv      uint32
	BytesSent    uint64
	BytesRecv    uint64
	LocalNT      NetworkType
	RemoteNT     NetworkType
	InByID       bool
	IsSel        bool
	PrioOverride bool // the pair keeps the priority it had before a signalled candidate superseded its peer-reflexive remote (C06)
}

type vfCandSnap struct {
	Addr     string
	Type     CandidateType
	NT       NetworkType
	TCPType  TCPType
	LastRecv int64
	LastSent int64
	Prio     uint32
	Ufrag    string
}

type vfSnap struct {
	Err         error
	State       ConnectionState
	Gathering   GatheringState
	Controlling bool
	Selected    string
	SelID       uint64
	Pairs       []vfPairSnap
	ByIDCount   int
	Locals      []vfCandSnap
	Remotes     []vfCandSnap
	Pending     []string
	LocalUfrag  string
	RemoteUfrag string
	LastNom     int64
}

func vfPairKey(l, r Candidate) string { return vfCandAddr(l) + "|" + vfCandAddr(r) }

func (x *vfSide) snapshot() *vfSnap {
	sn := &vfSnap{}
	a := x.a
	err := a.loop.Run(a.loop, func(context.Context) {
		sn.State = a.connectionState
		sn.Gathering = a.gatheringState
		sn.Controlling = a.isControlling.Load()
		sn.LocalUfrag, sn.RemoteUfrag = a.localUfrag, a.remoteUfrag
		sel := a.getSelectedPair()
		if sel != nil {
			sn.Selected = vfPairKey(sel.Local, sel.Remote)
			sn.SelID = sel.id
		}
		sn.ByIDCount = len(a.pairsByID)
		for _, p := range a.checklist {
			ps := vfPairSnap{
				ID: p.id, Local: vfCandAddr(p.Local), Remote: vfCandAddr(p.Remote), LType: p.Local.Type(), RType: p.Remote.Type(),
				State: p.state, Nominated: p.nominated, NomOnSucc: p.nominateOnBindingSuccess, Prio: p.priority(),
				LPrio: p.Local.Priority(), RPrio: p.Remote.Priority(), ReqCount: p.bindingRequestCount,
				ReqSent: p.RequestsSent(), ReqRecv: p.RequestsReceived(), RespSent: p.ResponsesSent(), RespRecv: p.ResponsesReceived(),
				PktSent: p.PacketsSent(), PktRecv: p.PacketsReceived(), BytesSent: p.BytesSent(), BytesRecv: p.BytesReceived(),
				LocalNT: p.Local.NetworkType(), RemoteNT: p.Remote.NetworkType(), InByID: a.pairsByID[p.id] == p, IsSel: p == sel, PrioOverride: p.hasPriorityOverride,
			}
			sn.Pairs = append(sn.Pairs, ps)
		}
		snapC := func(c Candidate) vfCandSnap {
			cs := vfCandSnap{Addr: vfCandAddr(c), Type: c.Type(), NT: c.NetworkType(), TCPType: c.TCPType(), Prio: c.Priority()}
			if t := c.LastReceived(); !t.IsZero() {
				cs.LastRecv = t.UnixNano()
			}
			if t := c.LastSent(); !t.IsZero() {
				cs.LastSent = t.UnixNano()
			}
			if ext, ok := c.GetExtension("ufrag"); ok {
				cs.Ufrag = ext.Value
			}

			return cs
		}
		for _, nt := range []NetworkType{NetworkTypeUDP4, NetworkTypeUDP6, NetworkTypeTCP4, NetworkTypeTCP6} {
			for _, c := range a.localCandidates[nt] {
				cs := snapC(c)
				if cs.NT != nt {
					cs.Addr += fmt.Sprintf("(!stored under %s)", nt)
				}
				sn.Locals = append(sn.Locals, cs)
			}
			for _, c := range a.remoteCandidates[nt] {
				cs := snapC(c)
				if cs.NT != nt {
					cs.Addr += fmt.Sprintf("(!stored under %s)", nt)
				}
				sn.Remotes = append(sn.Remotes, cs)
			}
		}
		for _, br := range a.pendingBindingRequests {
			sn.Pending = append(sn.Pending, fmt.Sprintf("%x", br.transactionID[:]))
		}
		sn.LastNom = -1
		if cs, ok := a.selector.(*controlledSelector); ok && cs.lastNomination != nil {
			sn.LastNom = int64(*cs.lastNomination)
		}
	})
	sn.Err = err

	return sn
}

// ---------------------------------------------------------------- step primitives

func (s *vfSession) tickSide(x *vfSide) {
	if s.broken != "" || x.closed || x.tick == nil {
		return
	}
	s.step("tick", x.name, 0, "")
	x.doTick()
	s.afterStep()
}

func (s *vfSession) deliver(id int, dup bool) {
	if s.broken != "" {
		return
	}
	op := "deliver"
	if dup {
		op = "dup"
	}
	s.step(op, "", id, "")
	if s.mon.c07 {
		s.noteDataDelivery(id)
	}
	if _, err := s.sw.deliverID(id, dup); err != nil {
		s.broken = err.Error()

		return
	}
	s.afterStep()
}

func (s *vfSession) drop(id int) {
	s.step("drop", "", id, "")
	s.sw.dropID(id)
}

func (s *vfSession) deliverAll(shuffle bool, maxN int) int {
	n := 0
	for n < maxN && s.broken == "" {
		ids := s.sw.inflightIDs()
		if len(ids) == 0 {
			break
		}
		id := ids[0]
		if shuffle {
			id = ids[s.rng.IntN(len(ids))]
		}
		s.deliver(id, false)
		n++
	}

	return n
}

func (s *vfSession) dropAll() {
	for _, id := range s.sw.inflightIDs() {
		s.drop(id)
	}
}

// afterStep waits for callback quiescence and runs the per-step monitors.
func (s *vfSession) afterStep() {
	for _, x := range s.sides() {
		if x.closed {
			continue
		}
		if err := vfAwaitNotifiers(x.a); err != nil {
			s.broken = err.Error()

			return
		}
	}
	for _, x := range s.sides() {
		if x.closed {
			continue
		}
		sn := x.snapshot()
		if sn.Err != nil {
			continue
		}
		if s.mon.c04 {
			s.monitorC04(x, sn)
		}
		if s.mon.c06 {
			s.monitorC06(x, sn)
		}
		if s.mon.c03 {
			s.monitorC03(x, sn)
		}
		if s.e.prop == "C17" {
			s.monitorC17(x, sn)
		}
		x.prevSnapState = sn.State
		_ = sn
		if s.noPairPossible && (sn.Selected != "" || sn.State == ConnectionStateConnected) {
			s.viol("C01", "connected-without-reachable-pair", fmt.Sprintf("%s reports state %s / selected %q although no candidate pair is reachable in both directions", x.name, sn.State, sn.Selected), nil)
		}
	}
	if s.mon.c07 {
		s.afterStepC07()
	}
}

// ---------------------------------------------------------------- C17: live pair priorities follow the formula for the agent's CURRENT role

func (s *vfSession) monitorC17(x *vfSide, sn *vfSnap) {
	for _, p := range sn.Pairs {
		if p.PrioOverride {
			continue
		}
		s.r.eval(1)
		if want := vfRefPairPrio(sn.Controlling, p.LPrio, p.RPrio); p.Prio != want {
			s.viol("C17", "live-pair-priority-not-for-current-role", fmt.Sprintf("%s (controlling now: %v) lists pair %s -> %s (candidate priorities %d / %d) with pair priority %d; the formula with the controlling side's candidate as G gives %d", x.name, sn.Controlling, p.Local, p.Remote, p.LPrio, p.RPrio, p.Prio, want),
				map[string]any{"side": x.name, "controlling": sn.Controlling, "pair": p.Local + "|" + p.Remote, "local_priority": p.LPrio, "remote_priority": p.RPrio, "pair_priority": fmt.Sprint(p.Prio), "reference": fmt.Sprint(want)})

			return
		}
	}
}

// ---------------------------------------------------------------- C04: notified states form a path of the documented graph

func vfC04EdgeOK(from, to ConnectionState, discTimeoutZero bool, restart bool) bool {
	if to == ConnectionStateClosed {
		return from != ConnectionStateClosed
	}
	switch from {
	case ConnectionStateNew:
		return to == ConnectionStateChecking
	case ConnectionStateChecking:
		return to == ConnectionStateConnected || to == ConnectionStateFailed
	case ConnectionStateConnected:
		return to == ConnectionStateDisconnected || (to == ConnectionStateFailed && discTimeoutZero) || (to == ConnectionStateChecking && restart)
	case ConnectionStateDisconnected:
		return to == ConnectionStateConnected || to == ConnectionStateFailed || (to == ConnectionStateChecking && restart)
	case ConnectionStateFailed:
		return to == ConnectionStateChecking && restart
	default:
		return false
	}
}

func (s *vfSession) monitorC04(x *vfSide, sn *vfSnap) {
	x.mu.Lock()
	states := append([]ConnectionState{}, x.states...)
	x.mu.Unlock()
	prev := x.lastState
	if prev == 0 {
		prev = ConnectionStateNew
	}
	for _, st := range states[x.stateCursor:] {
		restart := x.restartedAt == s.stepN
		if st == prev {
			s.viol("C04", "state-repeat", fmt.Sprintf("%s: state %s notified twice in a row", x.name, st), nil)
		} else if !vfC04EdgeOK(prev, st, x.cfg.DiscTimeout == 0, restart) {
			s.viol("C04", fmt.Sprintf("state-edge:%s->%s", prev, st), fmt.Sprintf("%s: notified transition %s -> %s is not an edge of the documented graph (restart in this step: %v)", x.name, prev, st, restart), nil)
		}
		s.r.set("c04_edges", prev.String()+"->"+st.String())
		prev = st
	}
	x.stateCursor = len(states)
	x.lastState = prev
	// the last notified state is the agent's state
	want := sn.State
	got := prev
	if got != want && !(len(states) == 0 && want == ConnectionStateNew) {
		s.viol("C04", "state-notified-differs", fmt.Sprintf("%s: agent state is %s but the last notified state is %s", x.name, want, got), nil)
	}
	switch sn.State { //nolint:exhaustive
	case ConnectionStateConnected, ConnectionStateDisconnected:
		if sn.Selected == "" {
			s.viol("C04", "connected-without-selected", fmt.Sprintf("%s: state %s with no selected pair", x.name, sn.State), nil)
		}
	case ConnectionStateFailed:
		// judged in the step that entered Failed: later inbound checks may legitimately create new peer-reflexive state
		if x.prevSnapState != ConnectionStateFailed && (sn.Selected != "" || len(sn.Pairs) > 0 || len(sn.Locals) > 0 || len(sn.Remotes) > 0) {
			s.viol("C04", "failed-with-residue", fmt.Sprintf("%s: Failed but selected=%q pairs=%d locals=%d remotes=%d", x.name, sn.Selected, len(sn.Pairs), len(sn.Locals), len(sn.Remotes)), nil)
		}
	}
}

// ---------------------------------------------------------------- C06: bookkeeping invariants at a quiescent point

func (s *vfSession) monitorC06(x *vfSide, sn *vfSnap) { //nolint:cyclop
	seenPair := map[string]bool{}
	seenID := map[uint64]bool{}
	locals := map[string]vfCandSnap{}
	remotes := map[string]vfCandSnap{}
	for _, c := range sn.Locals {
		locals[c.Addr] = c
	}
	dupRemote := map[string]bool{}
	for _, c := range sn.Remotes {
		k := fmt.Sprintf("%s/%d/%d", c.Addr, c.Type, c.TCPType)
		if dupRemote[c.Addr] {
			s.viol("C06", "remote-duplicate", fmt.Sprintf("%s: remote candidate %s listed twice", x.name, c.Addr), nil)
		}
		_ = k
		dupRemote[c.Addr] = true
		remotes[c.Addr] = c
		if c.TCPType == TCPTypeActive {
			s.viol("C06", "remote-tcp-active", fmt.Sprintf("%s: remote candidate %s is TCP active", x.name, c.Addr), nil)
		}
		if x.cfg.RemoteFilter != nil {
			ap := strings.SplitN(c.Addr, "/", 2)[1]
			if a, err := netip.ParseAddrPort(ap); err == nil && !x.cfg.RemoteFilter(a.Addr().Unmap()) {
				s.viol("C06", "remote-filtered:"+c.Type.String(), fmt.Sprintf("%s: remote candidate %s (%s) is rejected by the remote IP filter", x.name, c.Addr, c.Type), nil)
			}
		}
	}
	selListed := sn.Selected == ""
	for _, p := range sn.Pairs {
		k := p.Local + "|" + p.Remote
		if seenPair[k] {
			s.viol("C06", "pair-duplicate", fmt.Sprintf("%s: pair %s listed twice", x.name, k), nil)
		}
		seenPair[k] = true
		if seenID[p.ID] {
			s.viol("C06", "pair-id-duplicate", fmt.Sprintf("%s: pair id %d used twice", x.name, p.ID), nil)
		}
		seenID[p.ID] = true
		if !p.InByID {
			s.viol("C06", "pair-id-index", fmt.Sprintf("%s: pair %d (%s) is not what the id index returns", x.name, p.ID, k), nil)
		}
		if prev, ok := x.pairAddr[p.ID]; ok && prev != k {
			s.viol("C06", "pair-id-readdressed", fmt.Sprintf("%s: pair id %d addressed %s before and %s now", x.name, p.ID, prev, k), nil)
		}
		if _, ok := x.pairAddr[p.ID]; !ok {
			if p.ID <= x.maxPairID {
				s.viol("C06", "pair-id-reused", fmt.Sprintf("%s: new pair %s got id %d, not above the highest id %d of this generation", x.name, k, p.ID, x.maxPairID), nil)
			}
			x.pairAddr[p.ID] = k
		}
		if p.ID > x.maxPairID {
			x.maxPairID = p.ID
		}
		if _, ok := locals[p.Local]; !ok {
			s.viol("C06", "pair-local-not-current", fmt.Sprintf("%s: pair %s uses a local candidate that is not in the local list", x.name, k), nil)
		}
		if _, ok := remotes[p.Remote]; !ok {
			s.viol("C06", "pair-remote-not-current", fmt.Sprintf("%s: pair %s uses a remote candidate that is not in the remote list", x.name, k), nil)
		}
		if p.LocalNT != p.RemoteNT {
			s.viol("C06", "pair-mixed-network", fmt.Sprintf("%s: pair %s joins %s with %s", x.name, k, p.LocalNT, p.RemoteNT), nil)
		}
		if p.IsSel {
			selListed = true
		}
	}
	if sn.ByIDCount != len(sn.Pairs) {
		s.viol("C06", "pair-id-index-size", fmt.Sprintf("%s: %d pairs listed, %d in the id index", x.name, len(sn.Pairs), sn.ByIDCount), nil)
	}
	if !selListed {
		s.viol("C06", "selected-not-listed", fmt.Sprintf("%s: selected pair %s is not one of the listed pairs", x.name, sn.Selected), nil)
	}
	if sn.State == ConnectionStateFailed && x.prevSnapState != ConnectionStateFailed && (len(sn.Pairs) > 0 || len(sn.Locals) > 0 || len(sn.Remotes) > 0 || sn.Selected != "" || len(sn.Pending) > 0) {
		s.viol("C06", "failed-residue", fmt.Sprintf("%s: Failed with pairs=%d locals=%d remotes=%d pending=%d selected=%q", x.name, len(sn.Pairs), len(sn.Locals), len(sn.Remotes), len(sn.Pending), sn.Selected), nil)
	}
	// public views agree with the internal ones
	if x.conn != nil && s.stepN%7 == 0 {
		info := x.conn.GetCandidatePairsInfo()
		if len(info) != len(sn.Pairs) {
			s.viol("C06", "public-view-pairs", fmt.Sprintf("%s: GetCandidatePairsInfo lists %d pairs, the checklist has %d", x.name, len(info), len(sn.Pairs)), nil)
		}
		stats := x.a.GetCandidatePairsStats()
		if len(stats) != len(sn.Pairs) {
			s.viol("C06", "public-view-stats", fmt.Sprintf("%s: GetCandidatePairsStats lists %d pairs, the checklist has %d", x.name, len(stats), len(sn.Pairs)), nil)
		}
		rc, _ := x.a.GetRemoteCandidates()
		if len(rc) != len(sn.Remotes) {
			s.viol("C06", "public-view-remotes", fmt.Sprintf("%s: GetRemoteCandidates lists %d, internal %d", x.name, len(rc), len(sn.Remotes)), nil)
		}
	}
}

// ---------------------------------------------------------------- C03: every selection is backed by the wire log

func vfRefPairPrio(controlling bool, lprio, rprio uint32) uint64 {
	g, d := lprio, rprio
	if !controlling {
		g, d = rprio, lprio
	}
	mn, mx := uint64(g), uint64(d)
	if mn > mx {
		mn, mx = mx, mn
	}
	v := (1<<32-1)*mn + 2*mx
	if g > d {
		v++
	}

	return v
}

func (s *vfSession) monitorC03(x *vfSide, sn *vfSnap) { //nolint:cyclop
	// emitted traffic classification (whole wire log of this step)
	defer func() { x.prevSel = sn.Selected }()
	if sn.Selected == x.prevSel || sn.Selected == "" {
		if sn.Selected != "" {
			for _, p := range sn.Pairs {
				if p.IsSel {
					x.prevSelPrio = [2]uint32{p.LPrio, p.RPrio}
				}
			}
		}

		return
	}
	var cur vfPairSnap
	for _, p := range sn.Pairs {
		if p.IsSel {
			cur = p
		}
	}
	parts := strings.SplitN(sn.Selected, "|", 2)
	lAP, _ := netip.ParseAddrPort(strings.SplitN(parts[0], "/", 2)[1])
	rAP, _ := netip.ParseAddrPort(strings.SplitN(parts[1], "/", 2)[1])
	peerName := "P"
	if s.P == nil {
		peerName = s.other(x).name
	}
	peerAuth := func(name string) bool { return strings.HasPrefix(name, peerName+".") }
	selfAuth := func(name string) bool { return strings.HasPrefix(name, x.name+".") }
	// requests this agent emitted on the pair
	reqTx := map[string]bool{}
	reqTxUC := map[string]bool{}
	for _, d := range s.sw.wireFrom(0) {
		if d.Emitter != x.name || d.Forged || d.Stun == nil || d.Stun.Class != "request" || !d.Stun.Binding {
			continue
		}
		if d.SrcPriv == lAP && d.Dst == rAP {
			reqTx[d.Stun.TxID] = true
			if d.Stun.UseCand {
				reqTxUC[d.Stun.TxID] = true
			}
		}
	}
	// requests this agent emitted to the same remote from ANOTHER local socket
	reqTxOtherSock := map[string]bool{}
	for _, d := range s.sw.wireFrom(0) {
		if d.Emitter == x.name && !d.Forged && d.Stun != nil && d.Stun.Class == "request" && d.Stun.Binding && d.SrcPriv != lAP && d.Dst == rAP {
			reqTxOtherSock[d.Stun.TxID] = true
		}
	}
	gotResp, gotRespUC, gotNomReq, gotNomVal, gotRespOtherSock := false, false, false, false, false
	for _, dl := range s.sw.deliveredCopy() {
		d := dl.Dgram
		if dl.To != x.name || d.Stun == nil || !d.Stun.Binding || dl.Sock != lAP || d.Src != rAP {
			continue
		}
		switch d.Stun.Class {
		case "success response":
			if peerAuth(d.Stun.AuthBy) && reqTx[d.Stun.TxID] {
				gotResp = true
				if reqTxUC[d.Stun.TxID] {
					gotRespUC = true
				}
			} else if peerAuth(d.Stun.AuthBy) && reqTxOtherSock[d.Stun.TxID] {
				gotRespOtherSock = true // the answer to a check sent from another local socket arrived on this one
			}
		case "request":
			if selfAuth(d.Stun.AuthBy) && d.Stun.Username == sn.LocalUfrag+":"+sn.RemoteUfrag {
				if d.Stun.UseCand {
					gotNomReq = true
				}
				if d.Stun.Nomination != nil {
					gotNomReq, gotNomVal = true, true
				}
			}
		}
	}
	role := "controlled"
	if sn.Controlling {
		role = "controlling"
	}
	s.r.set("c03_selections", fmt.Sprintf("%s/lite=%v/resp=%v/respUC=%v/nomreq=%v/nomval=%v", role, x.cfg.Lite, gotResp, gotRespUC, gotNomReq, gotNomVal))
	s.r.count("c03_selection_changes", 1)
	desc := map[string]any{"side": x.name, "selected": sn.Selected, "role": role}
	switch {
	case x.cfg.Lite && !sn.Controlling:
		if !gotNomReq {
			s.viol("C03", "lite-selected-without-nomination", fmt.Sprintf("%s (lite, controlled) selected %s without an authenticated nomination on that pair", x.name, sn.Selected), desc)
		}
	case sn.Controlling:
		if !gotRespUC && gotRespOtherSock {
			s.viol("C03", "controlling-selected-on-response-received-on-another-local-socket", fmt.Sprintf("%s (controlling) selected %s on a success response that answered a request sent from a different local socket", x.name, sn.Selected), desc)
		} else if !gotRespUC {
			sig := "controlling-selected-without-nominating-check"
			if gotResp {
				sig = "controlling-selected-on-plain-response"
			}
			s.viol("C03", sig, fmt.Sprintf("%s (controlling) selected %s but no authenticated success response answering one of its USE-CANDIDATE requests on that pair was delivered (plain response seen: %v)", x.name, sn.Selected, gotResp), desc)
		}
	default:
		if !gotResp && gotRespOtherSock {
			s.viol("C03", "controlled-selected-on-response-received-on-another-local-socket", fmt.Sprintf("%s (controlled) selected %s; the only success response it got on that pair answered a check it had sent from a different local socket (transaction matched by id and destination, not by sending candidate)", x.name, sn.Selected), desc)
		} else if !gotResp {
			s.viol("C03", "controlled-selected-without-own-check", fmt.Sprintf("%s (controlled) selected %s but no authenticated, transaction-matched success response to a check of its own on that pair was delivered", x.name, sn.Selected), desc)
		}
		if !gotNomReq {
			s.viol("C03", "controlled-selected-without-nomination", fmt.Sprintf("%s (controlled) selected %s but no authenticated request with USE-CANDIDATE/nomination was received on that pair", x.name, sn.Selected), desc)
		}
	}
	// priority guard on plain USE-CANDIDATE: never move to a lower-priority pair
	if x.prevSel != "" && !sn.Controlling && !gotNomVal && (!x.cfg.Lite || x.cfg.CheckPrio) {
		oldP := vfRefPairPrio(false, x.prevSelPrio[0], x.prevSelPrio[1])
		newP := vfRefPairPrio(false, cur.LPrio, cur.RPrio)
		if newP < oldP {
			s.viol("C03", "downward-switch-on-plain-use-candidate", fmt.Sprintf("%s moved from %s (pair priority %d) to %s (pair priority %d) on a plain USE-CANDIDATE", x.name, x.prevSel, oldP, sn.Selected, newP), desc)
		}
	}
	x.prevSelPrio = [2]uint32{cur.LPrio, cur.RPrio}
}

// emittedCheck classifies what an agent puts on the wire (C03 clauses on USE-CANDIDATE and lite agents).
func (s *vfSession) emittedCheck(from int) {
	s.ucMu.Lock()
	uc := append([]string{}, s.ucWhileControlled...)
	s.ucMu.Unlock()
	if len(uc) > 0 {
		for _, prop := range []string{"C03", "C20"} { // C03: a controlled agent never sends USE-CANDIDATE; C20: only a controlling agent can renominate
			s.viol(prop, "controlled-sent-use-candidate", fmt.Sprintf("%d Binding request(s) with USE-CANDIDATE left an agent while its role was controlled: %v", len(uc), uc), nil)
		}
	}
	for _, d := range s.sw.wireFrom(from) {
		if d.Forged || d.Stun == nil || !d.Stun.Binding || d.Stun.Class != "request" {
			continue
		}
		var x *vfSide
		for _, c := range s.sides() {
			if c.name == d.Emitter {
				x = c
			}
		}
		if x == nil {
			continue
		}
		if d.Stun.UseCand && d.Stun.Role == "controlled" {
			s.viol("C03", "controlled-sent-use-candidate", fmt.Sprintf("%s sent a Binding request carrying both ICE-CONTROLLED and USE-CANDIDATE to %s", x.name, d.Dst), nil)
		}
		if x.cfg.Lite && (s.P != nil || !s.other(x).cfg.Lite) {
			s.viol("C03", "lite-sent-request", fmt.Sprintf("%s is a lite agent but originated a Binding request to %s", x.name, d.Dst), nil)
		}
	}
}

// ---------------------------------------------------------------- helpers for workloads

func (s *vfSession) closeAll() {
	for _, x := range s.sides() {
		x.close()
	}
}

func vfSortedKeys(m map[string]bool) []string {
	out := make([]string, 0, len(m))
	for k := range m {
		out = append(out, k)
	}
	sort.Strings(out)

	return out
}

// vfSignalled builds the candidate the peer is told for local candidate c.
// mode: "host" (as gathered), "srflx" (public address with raddr), "skip".
func (s *vfSession) signalled(c Candidate, mode string) (Candidate, error) {
	// the peer's signalling may spell IPv4 addresses in the IPv4-mapped IPv6 form (same transport address)
	spell := func(a netip.Addr) string {
		if s.mappedSignalling && a.Is4() && s.rng.IntN(2) == 0 {
			return "::ffff:" + a.String()
		}

		return a.String()
	}
	switch mode {
	case "host":
		if ap := vfCandAP(c); s.mdnsSignalling && ap.IsValid() && s.rng.IntN(2) == 0 {
			// an mDNS-named host candidate, resolved the way resolveAndAddMulticastCandidate does before adding it
			hc, err := NewCandidateHost(&CandidateHostConfig{Network: c.NetworkType().NetworkShort(), Address: fmt.Sprintf("%016x.local", s.rng.Uint64()), Port: c.Port(), Component: 1})
			if err != nil {
				return nil, err
			}

			return hc, hc.setIPAddr(ap.Addr())
		}
		if ap := vfCandAP(c); s.mappedSignalling && ap.IsValid() && ap.Addr().Is4() {
			return NewCandidateHost(&CandidateHostConfig{Network: c.NetworkType().NetworkShort(), Address: spell(ap.Addr()), Port: c.Port(), Component: 1, TCPType: c.TCPType()})
		}

		return UnmarshalCandidate(c.Marshal())
	case "srflx":
		pub := s.sw.pub(vfCandAP(c))

		return NewCandidateServerReflexive(&CandidateServerReflexiveConfig{
			Network: c.NetworkType().NetworkShort(), Address: spell(pub.Addr()), Port: int(pub.Port()), Component: 1,
			RelAddr: c.Address(), RelPort: c.Port(),
		})
	}

	return nil, nil //nolint:nilnil
}

var _ = stun.BindingRequest
