//go:build verif

package ice

// C19: address rewrite rules map addresses as documented.
// Reference-model monitor: newAddressRewriteMapper/findExternalIPs (and the
// public option / legacy NAT1To1IPs construction paths) are run on generated
// rule lists and every lookup key of small pools, and compared with an
// independent implementation of the documented precedence.

import (
	"context"
	"errors"
	"fmt"
	"math/rand/v2"
	"net"
	"sort"
	"strings"
	"sync"
	"testing"
	"time"
)

var ( //nolint:gochecknoglobals
	vfC19Ifaces   = []string{"eth0", "eth1", "wlan0"}
	vfC19CIDRs    = []string{"10.0.0.0/24", "10.0.0.0/8", "192.168.1.0/24", "fd00::/64"}
	vfC19Locals   = []string{"10.0.0.5", "10.0.1.7", "192.168.1.9", "172.16.0.3", "fd00::5", "2001:db8::9"}
	vfC19LookupIP = []string{"10.0.0.5", "10.0.0.6", "10.0.1.7", "192.168.1.9", "172.16.0.3", "fd00::5", "fd00::6", "2001:db8::9"}
	vfC19Ext4     = []string{"203.0.113.1", "203.0.113.2", "198.51.100.7"}
	vfC19Ext6     = []string{"2001:db8:1::1", "2001:db8:1::2", "2001:db8:2::7"}
)

type vfC19Rule struct {
	R       AddressRewriteRule
	Invalid string // non-empty: why the constructor must reject it
}

func vfIs4(s string) bool {
	ip := net.ParseIP(strings.TrimSpace(s))
	return ip != nil && ip.To4() != nil
}

func vfC19GenRule(rng *rand.Rand, allowInvalid bool) vfC19Rule { //nolint:cyclop
	var r AddressRewriteRule
	r.AsCandidateType = []CandidateType{CandidateTypeUnspecified, CandidateTypeHost, CandidateTypeHost, CandidateTypeServerReflexive, CandidateTypeRelay}[rng.IntN(5)]
	r.Mode = []AddressRewriteMode{addressRewriteModeUnspecified, AddressRewriteReplace, AddressRewriteAppend}[rng.IntN(3)]
	if rng.IntN(2) == 0 {
		r.Iface = vfC19Ifaces[rng.IntN(len(vfC19Ifaces))]
	}
	if rng.IntN(5) < 2 {
		r.CIDR = vfC19CIDRs[rng.IntN(len(vfC19CIDRs))]
	}
	invalid := ""
	if rng.IntN(5) < 2 {
		r.Local = vfC19Locals[rng.IntN(len(vfC19Locals))]
		if r.CIDR != "" {
			_, n, _ := net.ParseCIDR(r.CIDR)
			if !n.Contains(net.ParseIP(r.Local)) {
				if allowInvalid && rng.IntN(3) == 0 {
					invalid = "local outside CIDR"
				} else {
					// pick a CIDR that contains the local address, or none
					r.CIDR = ""
					for _, c := range vfC19CIDRs {
						_, n2, _ := net.ParseCIDR(c)
						if n2.Contains(net.ParseIP(r.Local)) && rng.IntN(2) == 0 {
							r.CIDR = c
						}
					}
				}
			}
		}
	}
	fam := 0 // 0 any, 4, 6: family restriction of the rule's Networks
	if rng.IntN(5) < 2 {
		switch rng.IntN(4) {
		case 0:
			r.Networks, fam = []NetworkType{NetworkTypeUDP4}, 4
		case 1:
			r.Networks, fam = []NetworkType{NetworkTypeUDP6, NetworkTypeTCP6}, 6
		case 2:
			r.Networks = []NetworkType{NetworkTypeUDP4, NetworkTypeUDP6}
		case 3:
			r.Networks, fam = []NetworkType{NetworkTypeTCP4, NetworkTypeUDP4}, 4
		}
	}
	nExt := []int{0, 1, 1, 2, 3}[rng.IntN(5)]
	pick := func(v4 bool) string {
		if v4 {
			return vfC19Ext4[rng.IntN(3)]
		}

		return vfC19Ext6[rng.IntN(3)]
	}
	for i := 0; i < nExt; i++ {
		var e string
		switch {
		case r.Local != "":
			e = pick(rng.IntN(2) == 0) // pinned by Local: families may cross
		case r.CIDR != "":
			e = pick(vfIs4(strings.Split(r.CIDR, "/")[0])) // family implied by the CIDR: no cross-family externals generated (ambiguous, DESIGN 6)
		case fam == 4:
			e = pick(true)
		case fam == 6:
			e = pick(false)
		default:
			e = pick(rng.IntN(2) == 0)
		}
		if rng.IntN(12) == 0 {
			e = " " + e + " "
		}
		r.External = append(r.External, e)
	}
	// a CIDR-scoped catch-all restricted to the other family can never match; keep it (reference: no match)
	if allowInvalid && invalid == "" && rng.IntN(14) == 0 {
		switch rng.IntN(6) {
		case 0:
			r.External = append(r.External, "999.1.1.1")
			invalid = "bad external IP"
		case 1:
			r.External = append(r.External, "203.0.113.9/24")
			invalid = "external with prefix"
		case 2:
			r.Local = "not-an-ip"
			invalid = "bad local IP"
		case 3:
			r.CIDR = "10.0.0.0/33"
			invalid = "bad CIDR"
		case 4:
			r.AsCandidateType = CandidateTypePeerReflexive
			invalid = "prflx type"
		case 5:
			r.External = append(r.External, "example.org")
			invalid = "hostname external"
		}
	}

	return vfC19Rule{R: r, Invalid: invalid}
}

type vfC19Out struct {
	matched bool
	mode    AddressRewriteMode
	ips     []string
	spec    int
	idx     int
}

func vfC19EffType(t CandidateType) CandidateType {
	if t == CandidateTypeUnspecified {
		return CandidateTypeHost
	}

	return t
}

func vfC19EffMode(r AddressRewriteRule) AddressRewriteMode {
	if r.Mode != addressRewriteModeUnspecified {
		return r.Mode
	}
	if vfC19EffType(r.AsCandidateType) == CandidateTypeHost {
		return AddressRewriteReplace
	}

	return AddressRewriteAppend
}

// vfC19Ref is the documented precedence. cidrOnlyIgnoredWithIface reproduces the known
// finding F7 (used only to classify a mismatch, never as the expected value).
func vfC19Ref(rules []AddressRewriteRule, typ CandidateType, loc, iface string, cidrOnlyIgnoredWithIface bool) vfC19Out {
	locIP := net.ParseIP(loc)
	loc4 := locIP.To4() != nil
	best := vfC19Out{idx: -1}
	for i, r := range rules {
		if vfC19EffType(r.AsCandidateType) != typ {
			continue
		}
		if r.Iface != "" && r.Iface != iface {
			continue
		}
		var cidr *net.IPNet
		if r.CIDR != "" {
			_, cidr, _ = net.ParseCIDR(r.CIDR)
			if cidr == nil || !cidr.Contains(locIP) {
				continue
			}
		}
		if len(r.Networks) > 0 {
			ok := false
			for _, n := range r.Networks {
				if (n.IsIPv4() && loc4) || (n.IsIPv6() && !loc4) {
					ok = true
				}
			}
			if !ok {
				continue
			}
		}
		exts := []string{}
		for _, e := range r.External {
			exts = append(exts, net.ParseIP(strings.TrimSpace(e)).String())
		}
		if l := strings.TrimSpace(r.Local); l != "" {
			if net.ParseIP(l).Equal(locIP) {
				return vfC19Out{matched: true, mode: vfC19EffMode(r), ips: exts, idx: i, spec: 99}
			}

			continue
		}
		fexts := []string{}
		for _, e := range exts {
			target4 := vfIs4(e)
			if cidr != nil {
				target4 = cidr.IP.To4() != nil
			}
			if target4 == loc4 {
				fexts = append(fexts, e)
			}
		}
		if len(exts) > 0 && len(fexts) == 0 {
			continue // the rule only carries mappings of the other family
		}
		spec := 0
		switch {
		case r.Iface != "" && cidr != nil:
			spec = 3
		case r.Iface != "":
			spec = 2
		case cidr != nil:
			spec = 1
			if cidrOnlyIgnoredWithIface && iface != "" {
				spec = 0
			}
		}
		if !best.matched || spec > best.spec {
			best = vfC19Out{matched: true, mode: vfC19EffMode(r), ips: fexts, idx: i, spec: spec}
		}
	}

	return best
}

func vfC19RuleJSON(rs []AddressRewriteRule) []map[string]any {
	out := []map[string]any{}
	for _, r := range rs {
		nets := []string{}
		for _, n := range r.Networks {
			nets = append(nets, n.String())
		}
		out = append(out, map[string]any{"external": r.External, "local": r.Local, "iface": r.Iface, "cidr": r.CIDR,
			"type": r.AsCandidateType.String(), "mode": int(r.Mode), "networks": nets})
	}

	return out
}

func vfC19CompareAll(r *vfResult, mapper *addressRewriteMapper, rules []AddressRewriteRule, path string) int {
	n := 0
	for _, typ := range []CandidateType{CandidateTypeHost, CandidateTypeServerReflexive, CandidateTypeRelay} {
		for _, loc := range vfC19LookupIP {
			for _, iface := range append([]string{""}, vfC19Ifaces...) {
				n++
				want := vfC19Ref(rules, typ, loc, iface, false)
				var got vfC19Out
				if mapper != nil {
					ips, matched, mode, err := mapper.findExternalIPs(typ, loc, iface)
					if err != nil {
						r.violation("lookup-error", fmt.Sprintf("findExternalIPs(%v,%s,%s): %v", typ, loc, iface, err), nil)

						continue
					}
					got = vfC19Out{matched: matched, mode: mode}
					for _, ip := range ips {
						got.ips = append(got.ips, ip.String())
					}
				}
				same := got.matched == want.matched && (!want.matched || (got.mode == want.mode && strings.Join(got.ips, ",") == strings.Join(want.ips, ",")))
				if want.matched {
					r.set("winner_kinds", fmt.Sprintf("spec=%d/mode=%d/n=%d", want.spec, want.mode, len(want.ips)))
				}
				if same {
					continue
				}
				sig := "lookup-mismatch"
				alt := vfC19Ref(rules, typ, loc, iface, true)
				if iface != "" && want.matched && want.spec == 1 && alt.matched == got.matched && alt.mode == got.mode &&
					strings.Join(alt.ips, ",") == strings.Join(got.ips, ",") && alt.idx >= 0 && alt.idx < want.idx {
					sig = "lookup-mismatch:cidr-only-catchall-loses-to-earlier-global-when-lookup-has-iface"
				}
				r.violation(sig+":"+path, fmt.Sprintf("lookup (%v, %s, iface=%q): got matched=%v mode=%d ips=%v, documented precedence gives matched=%v mode=%d ips=%v (rule #%d, specificity %d)",
					typ, loc, iface, got.matched, got.mode, got.ips, want.matched, want.mode, want.ips, want.idx, want.spec),
					map[string]any{"rules": vfC19RuleJSON(rules), "type": typ.String(), "local": loc, "iface": iface})
			}
		}
	}

	return n
}

func TestVerifC19(t *testing.T) { //nolint:cyclop
	vfRun(t, "C19", func(e *vfEnv, r *vfResult) {
		nLists := e.n(40000, 1500000)
		for i := 0; i < nLists; i++ {
			rng := e.rng(i, "rules")
			nRules := rng.IntN(7)
			allowInvalid := rng.IntN(8) == 0
			var rules []AddressRewriteRule
			firstInvalid := ""
			for k := 0; k < nRules; k++ {
				gr := vfC19GenRule(rng, allowInvalid)
				rules = append(rules, gr.R)
				if gr.Invalid != "" && firstInvalid == "" {
					firstInvalid = gr.Invalid
				}
			}
			var mapper *addressRewriteMapper
			var err error
			if p := vfRecover(func() { mapper, err = newAddressRewriteMapper(rules) }); p != "" {
				r.violation("ctor-panic", p, map[string]any{"rules": vfC19RuleJSON(rules)})

				continue
			}
			r.eval(1)
			if firstInvalid != "" {
				if err == nil {
					r.violation("ctor-accepts-invalid:"+firstInvalid, fmt.Sprintf("rule set with %s accepted at construction", firstInvalid), map[string]any{"rules": vfC19RuleJSON(rules)})
				}
				r.distinct("invalid/" + firstInvalid)

				continue
			}
			if err != nil {
				r.violation("ctor-rejects-valid", fmt.Sprintf("valid rule set rejected: %v", err), map[string]any{"rules": vfC19RuleJSON(rules)})

				continue
			}
			n := vfC19CompareAll(r, mapper, rules, "mapper")
			r.eval(int64(n))
			shape := []string{}
			for _, x := range rules {
				shape = append(shape, fmt.Sprintf("%v%v%v%v%d%d", x.Local != "", x.Iface != "", x.CIDR != "", len(x.Networks) > 0, len(x.External), vfC19EffMode(x)))
			}
			r.distinct("list/" + strings.Join(shape, "|"))
			if i < 3 {
				w := vfC19Ref(rules, CandidateTypeHost, "10.0.0.5", "eth0", false)
				r.sample(map[string]any{"rules": vfC19RuleJSON(rules), "lookup": "host/10.0.0.5/eth0", "expected_matched": w.matched, "expected_ips": w.ips, "expected_mode": int(w.mode)})
			}
			// the same rule list through the public option (sanitising path) when every rule has externals
			if i%16 == 0 {
				allExt := len(rules) > 0
				for _, x := range rules {
					if len(x.External) == 0 {
						allExt = false
					}
				}
				if allExt {
					vfC19ViaAgent(r, rules)
				}
			}
		}
		// end to end: host candidates gathered under a rule list
		for i := 0; i < e.n(600, 24000); i++ {
			vfC19Gather(e, r, i)
		}
		// legacy NAT1To1IPs construction path
		if e.shard == 0 {
			vfC19Legacy(e, r)
		}
	})
}

// vfC19Gather: the rules end to end.  An agent over the fake Net (interfaces eth0/eth1/wlan0 with addresses from the
// lookup pool) gathers host candidates under a generated, valid rule list; the set of addresses published for each
// local socket must be what the documented precedence gives for (host, local address, interface): the local address
// itself when nothing matches or the winner appends, the winner's externals instead in replace mode (none when its
// list is empty), both in append mode.
func vfC19Gather(e *vfEnv, r *vfResult, idx int) { //nolint:cyclop
	rng := e.rng(idx, "rules-gather")
	var rules []AddressRewriteRule
	for k := rng.IntN(5); k > 0; k-- {
		gr := vfC19GenRule(rng, false)
		if gr.Invalid != "" {
			continue
		}
		if vfC19EffType(gr.R.AsCandidateType) != CandidateTypeHost && rng.IntN(2) == 0 {
			gr.R.AsCandidateType = CandidateTypeHost
		}
		rules = append(rules, gr.R)
	}
	hasHostRule := false
	for _, x := range rules {
		if vfC19EffType(x.AsCandidateType) == CandidateTypeHost {
			hasHostRule = true
		}
	}
	if !hasHostRule {
		return
	}
	// interface table
	var ifs []vfIface
	where := map[string]string{} // local ip -> interface
	pool := append([]string{}, vfC19LookupIP...)
	rng.Shuffle(len(pool), func(i, j int) { pool[i], pool[j] = pool[j], pool[i] })
	for _, name := range vfC19Ifaces[:1+rng.IntN(3)] {
		ifc := vfIface{Name: name}
		for k := 1 + rng.IntN(2); k > 0 && len(pool) > 0; k-- {
			ifc.IPs = append(ifc.IPs, pool[0])
			where[pool[0]] = name
			pool = pool[1:]
		}
		ifs = append(ifs, ifc)
	}
	// identity mappings: a machine that carries its public address itself lists a local address among the externals
	if rng.IntN(3) == 0 {
		locs := vfSortedKeys(map[string]bool{})
		for l := range where {
			locs = append(locs, l)
		}
		sort.Strings(locs)
		for j := range rules {
			if vfC19EffType(rules[j].AsCandidateType) == CandidateTypeHost && len(locs) > 0 && rng.IntN(2) == 0 {
				l := locs[rng.IntN(len(locs))]
				// keep the rule unambiguous, as the generator does: the added external has a family the rule's Networks
				// admit and, for a CIDR-scoped rule, the CIDR's family
				famOK := len(rules[j].Networks) == 0
				for _, nt := range rules[j].Networks {
					if nt.IsIPv4() == vfIs4(l) {
						famOK = true
					}
				}
				if rules[j].CIDR != "" && vfIs4(strings.Split(rules[j].CIDR, "/")[0]) != vfIs4(l) {
					famOK = false
				}
				if !famOK {
					continue
				}
				ext := append([]string{}, rules[j].External...)
				if rng.IntN(2) == 0 {
					ext = append([]string{l}, ext...)
				} else {
					ext = append(ext, l)
				}
				rules[j].External = ext
			}
		}
	}
	sw := newVfSwitch()
	a, err := NewAgentWithOptions(WithNet(newVfNet(sw, "G", ifs...)), WithAddressRewriteRules(rules...), WithMulticastDNSMode(MulticastDNSModeDisabled),
		WithLoggerFactory(vfQuietLogger()), WithCandidateTypes([]CandidateType{CandidateTypeHost}), WithNetworkTypes([]NetworkType{NetworkTypeUDP4, NetworkTypeUDP6}))
	if err != nil {
		return // ineffective / rejected rule sets are the constructor part's business
	}
	defer a.Close() //nolint:errcheck
	var mu sync.Mutex
	done := false
	_ = a.OnCandidate(func(c Candidate) {
		if c == nil {
			mu.Lock()
			done = true
			mu.Unlock()
		}
	})
	if err := a.GatherCandidates(); err != nil {
		r.inconclusive(1)

		return
	}
	for dl := time.Now().Add(10 * time.Second); time.Now().Before(dl); time.Sleep(50 * time.Microsecond) {
		mu.Lock()
		d := done
		mu.Unlock()
		if d {
			break
		}
	}
	cands, err := a.GetLocalCandidates()
	if err != nil {
		r.inconclusive(1)

		return
	}
	// published addresses per local socket
	got := map[string]map[string]bool{}
	_ = a.loop.Run(a.loop, func(context.Context) {
		for _, set := range a.localCandidates {
			for _, c := range set {
				hc, ok := c.(*CandidateHost)
				if !ok || hc.conn == nil {
					continue
				}
				ua, ok := hc.conn.LocalAddr().(*net.UDPAddr)
				if !ok {
					continue
				}
				base := ua.IP.String()
				if got[base] == nil {
					got[base] = map[string]bool{}
				}
				got[base][net.ParseIP(c.Address()).String()] = true
			}
		}
	})
	_ = cands
	for loc, iface := range where {
		r.eval(1)
		expect := func(w vfC19Out) []string {
			set := map[string]bool{}
			switch {
			case !w.matched:
				set[loc] = true
			case w.mode == AddressRewriteReplace:
				for _, x := range w.ips {
					set[x] = true
				}
			default:
				set[loc] = true
				for _, x := range w.ips {
					set[x] = true
				}
			}

			return vfSortedKeys(set)
		}
		want := vfC19Ref(rules, CandidateTypeHost, loc, iface, false)
		have := vfSortedKeys(got[net.ParseIP(loc).String()])
		w := expect(want)
		r.set("c19_gather_outcomes", fmt.Sprintf("matched=%v/mode=%d/n=%d", want.matched, want.mode, len(want.ips)))
		if strings.Join(have, ",") == strings.Join(w, ",") {
			continue
		}
		sig := "gather-mismatch"
		if alt := vfC19Ref(rules, CandidateTypeHost, loc, iface, true); strings.Join(expect(alt), ",") == strings.Join(have, ",") && alt.idx >= 0 && alt.idx < want.idx && want.spec == 1 {
			sig = "lookup-mismatch:cidr-only-catchall-loses-to-earlier-global-when-lookup-has-iface:gather"
		}
		mapperSays := ""
		if ips, matched, mode, err := a.addressRewriteMapper.findExternalIPs(CandidateTypeHost, loc, iface); err == nil {
			mapperSays = fmt.Sprintf("; the mapper itself answers matched=%v mode=%d ips=%v", matched, mode, ips)
		} else {
			mapperSays = fmt.Sprintf("; the mapper itself answers error %v", err)
		}
		r.violation(sig, fmt.Sprintf("host candidates published for local %s on %s: %v; the documented precedence (rule #%d, matched=%v, mode=%d, externals %v) gives %v%s", loc, iface, have, want.idx, want.matched, want.mode, want.ips, w, mapperSays),
			map[string]any{"idx": idx, "rules": vfC19RuleJSON(rules), "local": loc, "iface": iface, "published": have, "expected": w})
	}
	r.count("c19_gather_runs", 1)
	r.distinct(fmt.Sprintf("gather/rules=%d/ifaces=%d/addrs=%d", len(rules), len(ifs), len(where)))
}

func vfC19ViaAgent(r *vfResult, rules []AddressRewriteRule) {
	a, err := NewAgentWithOptions(WithAddressRewriteRules(rules...), WithMulticastDNSMode(MulticastDNSModeDisabled), WithLoggerFactory(vfQuietLogger()))
	r.eval(1)
	if err != nil {
		if errors.Is(err, ErrIneffectiveNAT1To1IPMappingHost) || errors.Is(err, ErrIneffectiveNAT1To1IPMappingSrflx) {
			return
		}
		r.violation("option-rejects-valid", fmt.Sprintf("WithAddressRewriteRules rejected a valid rule set: %v", err), map[string]any{"rules": vfC19RuleJSON(rules)})

		return
	}
	defer a.Close() //nolint:errcheck
	// duplicates inside one External list are removed by the option; the reference sees the same list
	clean := []AddressRewriteRule{}
	for _, x := range rules {
		seen := map[string]bool{}
		y := x
		y.External = nil
		for _, e := range x.External {
			tk := strings.TrimSpace(e)
			if !seen[tk] {
				seen[tk] = true
				y.External = append(y.External, tk)
			}
		}
		clean = append(clean, y)
	}
	n := vfC19CompareAll(r, a.addressRewriteMapper, clean, "option")
	r.eval(int64(n))
	r.count("via_option", 1)
}

func vfC19Legacy(e *vfEnv, r *vfResult) {
	rng := e.rng(0, "legacy")
	n := e.n(1500, 40000)
	for i := 0; i < n; i++ {
		k := rng.IntN(5)
		var ips []string
		var rules []AddressRewriteRule
		has4, has6 := false, false
		invalid := ""
		typ := []CandidateType{CandidateTypeUnspecified, CandidateTypeHost, CandidateTypeServerReflexive}[rng.IntN(3)]
		for j := 0; j < k; j++ {
			ext := append(append([]string{}, vfC19Ext4...), vfC19Ext6...)[rng.IntN(6)]
			switch rng.IntN(8) {
			case 0, 1, 2: // explicit ext/local
				loc := vfC19Locals[rng.IntN(len(vfC19Locals))]
				ips = append(ips, ext+"/"+loc)
				rules = append(rules, AddressRewriteRule{External: []string{ext}, Local: loc, AsCandidateType: vfC19EffType(typ)})
			case 3:
				ips = append(ips, "bogus")
				if invalid == "" {
					invalid = "bad IP"
				}
			case 4:
				ips = append(ips, ext+"/1.2.3.4/5.6.7.8")
				if invalid == "" {
					invalid = "too many parts"
				}
			default: // catch-all
				if vfIs4(ext) {
					if has4 && invalid == "" {
						invalid = "duplicate IPv4 catch-all"
					}
					has4 = true
				} else {
					if has6 && invalid == "" {
						invalid = "duplicate IPv6 catch-all"
					}
					has6 = true
				}
				ips = append(ips, ext)
				rules = append(rules, AddressRewriteRule{External: []string{ext}, AsCandidateType: vfC19EffType(typ)})
			}
		}
		if ips == nil {
			ips = []string{}
		}
		a, err := NewAgent(&AgentConfig{NAT1To1IPs: ips, NAT1To1IPCandidateType: typ, MulticastDNSMode: MulticastDNSModeDisabled, LoggerFactory: vfQuietLogger()})
		r.eval(1)
		r.distinct(fmt.Sprintf("legacy/%d/%s/%v", k, invalid, typ))
		if invalid != "" {
			if err == nil {
				r.violation("legacy-accepts-invalid:"+invalid, fmt.Sprintf("NAT1To1IPs %v (%s) accepted", ips, invalid), map[string]any{"ips": ips})
				_ = a.Close()
			}

			continue
		}
		if err != nil {
			r.violation("legacy-rejects-valid", fmt.Sprintf("NAT1To1IPs %v rejected: %v", ips, err), map[string]any{"ips": ips})

			continue
		}
		nn := vfC19CompareAll(r, a.addressRewriteMapper, rules, "legacy")
		r.eval(int64(nn))
		_ = a.Close()
	}
}
