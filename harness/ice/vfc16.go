//go:build verif

package ice

// C16: candidate and attribute wire formats round-trip; equality is lawful.
// Law-based monitor: the laws of the statement are evaluated on the real
// Marshal/UnmarshalCandidate/Equal/DeepEqual and attribute codecs over
// generated candidates, mutated and random strings, and attribute byte strings.

import (
	"bytes"
	"fmt"
	"math/rand/v2"
	"net/netip"
	"sort"
	"strings"
	"testing"

	"github.com/pion/stun/v3"
)

type vfC16Spec struct {
	Type       string      `json:"type"`
	Network    string      `json:"network"`
	Address    string      `json:"address"`
	AddrForm   string      `json:"addr_form"`
	Port       int         `json:"port"`
	Component  uint16      `json:"component"`
	Priority   uint32      `json:"priority"`
	Foundation string      `json:"foundation"`
	TCPType    string      `json:"tcptype"`
	RelForm    string      `json:"rel_form"`
	RelAddr    string      `json:"rel_addr"`
	RelPort    int         `json:"rel_port"`
	Relay      string      `json:"relay_protocol"`
	Exts       [][2]string `json:"extensions"`
}

const vfIceChars = "ABCDEFGHIJKLMNOPQRSTUVWXYZabcdefghijklmnopqrstuvwxyz0123456789+/"

func vfC16ByteString(rng *rand.Rand) string {
	n := 1 + rng.IntN(8)
	var sb strings.Builder
	for i := 0; i < n; i++ {
		switch rng.IntN(10) {
		case 0: // control characters allowed by the grammar
			sb.WriteByte([]byte{0x01, 0x09, 0x0B, 0x0C, 0x0E, 0x1F, 0x7F}[rng.IntN(7)])
		case 1: // Latin-1 range, UTF-8 encoded (the parser reads runes)
			sb.WriteRune(rune(0x80 + rng.IntN(0x80)))
		case 2:
			sb.WriteByte("-_.:;=,!#$%&'()*<>?@[]^{|}~\"\\`"[rng.IntN(30)])
		default:
			sb.WriteByte(vfIceChars[rng.IntN(len(vfIceChars))])
		}
	}

	return sb.String()
}

func vfC16GenSpec(rng *rand.Rand) *vfC16Spec {
	s := &vfC16Spec{}
	s.Type = []string{"host", "srflx", "prflx", "relay"}[rng.IntN(4)]
	s.Network = []string{"udp", "tcp"}[rng.IntN(2)]
	forms := []string{"v4", "v6", "v4mapped"}
	if s.Type == "host" {
		forms = append(forms, "mdns")
	}
	s.AddrForm = forms[rng.IntN(len(forms))]
	v4 := fmt.Sprintf("%d.%d.%d.%d", 1+rng.IntN(223), rng.IntN(256), rng.IntN(256), 1+rng.IntN(254))
	switch s.AddrForm {
	case "v4":
		s.Address = v4
	case "v6":
		s.Address = []string{
			fmt.Sprintf("2001:db8:%x:%x::%x", rng.IntN(65536), rng.IntN(65536), 1+rng.IntN(65535)),
			fmt.Sprintf("fd%02x:%x:%x:%x:%x:%x:%x:%x", rng.IntN(256), 1+rng.IntN(65535), 1+rng.IntN(65535), 1+rng.IntN(65535), 1+rng.IntN(65535), 1+rng.IntN(65535), 1+rng.IntN(65535), 1+rng.IntN(65535)),
			"::1", fmt.Sprintf("2001:DB8::%X", 0xA000+rng.IntN(4096)),
		}[rng.IntN(4)]
	case "v4mapped":
		s.Address = "::ffff:" + v4
	case "mdns":
		s.Address = fmt.Sprintf("%08x-%04x-4%03x-a%03x-%012x.local", rng.Uint32(), rng.IntN(65536), rng.IntN(4096), rng.IntN(4096), rng.Uint64()&0xffffffffffff)
		s.Network = "udp"
	}
	s.Port = []int{0, 1, 9, 1024, 65535, rng.IntN(65536)}[rng.IntN(6)]
	s.Component = []uint16{1, 2, 128, 255, uint16(1 + rng.IntN(255))}[rng.IntN(5)] //nolint:gosec
	if rng.IntN(2) == 0 {
		s.Priority = []uint32{1, 2130706431, 1<<31 - 1, 1<<32 - 1, rng.Uint32() | 1}[rng.IntN(5)]
	}
	if rng.IntN(2) == 0 {
		n := []int{1, 2, 8, 31, 32, 1 + rng.IntN(32)}[rng.IntN(6)]
		var sb strings.Builder
		for i := 0; i < n; i++ {
			sb.WriteByte(vfIceChars[rng.IntN(len(vfIceChars))])
		}
		s.Foundation = sb.String()
	}
	if s.Type == "host" && s.Network == "tcp" {
		s.TCPType = []string{"", "active", "passive", "so"}[rng.IntN(4)]
	}
	if s.Type != "host" {
		s.RelForm = []string{"absent", "normal", "zero4", "zero6", "port0", "v6"}[rng.IntN(6)]
		switch s.RelForm {
		case "normal":
			s.RelAddr, s.RelPort = fmt.Sprintf("192.168.%d.%d", rng.IntN(256), 1+rng.IntN(254)), 1+rng.IntN(65535)
		case "zero4":
			s.RelAddr, s.RelPort = "0.0.0.0", 0
		case "zero6":
			s.RelAddr, s.RelPort = "::", 0
		case "port0":
			s.RelAddr, s.RelPort = fmt.Sprintf("10.%d.%d.%d", rng.IntN(256), rng.IntN(256), 1+rng.IntN(254)), 0
		case "v6":
			s.RelAddr, s.RelPort = fmt.Sprintf("2001:db8::%x", 1+rng.IntN(65535)), 1+rng.IntN(65535)
		}
	}
	if s.Type == "relay" {
		s.Relay = []string{"", "udp", "tcp", "tls", "dtls"}[rng.IntN(5)]
	}
	nExt := []int{0, 0, 1, 2, 3, 5}[rng.IntN(6)]
	common := []string{"generation", "network-id", "network-cost", "ufrag"}
	for i := 0; i < nExt; i++ {
		k := vfC16ByteString(rng)
		if rng.IntN(3) == 0 {
			k = common[rng.IntN(len(common))]
		}
		if k == "tcptype" {
			continue
		}
		s.Exts = append(s.Exts, [2]string{k, vfC16ByteString(rng)})
	}

	return s
}

func vfC16Build(s *vfC16Spec) (Candidate, error) {
	var c Candidate
	var err error
	switch s.Type {
	case "host":
		c, err = NewCandidateHost(&CandidateHostConfig{Network: s.Network, Address: s.Address, Port: s.Port, Component: s.Component,
			Priority: s.Priority, Foundation: s.Foundation, TCPType: NewTCPType(s.TCPType)})
	case "srflx":
		c, err = NewCandidateServerReflexive(&CandidateServerReflexiveConfig{Network: s.Network, Address: s.Address, Port: s.Port, Component: s.Component,
			Priority: s.Priority, Foundation: s.Foundation, RelAddr: s.RelAddr, RelPort: s.RelPort})
	case "prflx":
		c, err = NewCandidatePeerReflexive(&CandidatePeerReflexiveConfig{Network: s.Network, Address: s.Address, Port: s.Port, Component: s.Component,
			Priority: s.Priority, Foundation: s.Foundation, RelAddr: s.RelAddr, RelPort: s.RelPort})
	default:
		c, err = NewCandidateRelay(&CandidateRelayConfig{Network: s.Network, Address: s.Address, Port: s.Port, Component: s.Component,
			Priority: s.Priority, Foundation: s.Foundation, RelAddr: s.RelAddr, RelPort: s.RelPort, RelayProtocol: s.Relay})
	}
	if err != nil {
		return nil, err
	}
	for _, kv := range s.Exts {
		if err := c.AddExtension(CandidateExtension{Key: kv[0], Value: kv[1]}); err != nil {
			return nil, err
		}
	}

	return c, nil
}

func vfC16ExtMultiset(c Candidate) string {
	exts := c.Extensions()
	l := make([]string, 0, len(exts))
	for _, e := range exts {
		l = append(l, fmt.Sprintf("%q=%q", e.Key, e.Value))
	}
	sort.Strings(l)

	return strings.Join(l, ",")
}

// vfC16Compare lists the getters of the statement that differ between a and b.
func vfC16Compare(a, b Candidate) []string {
	var d []string
	add := func(name string, x, y any) {
		if fmt.Sprint(x) != fmt.Sprint(y) {
			d = append(d, fmt.Sprintf("%s: %v != %v", name, x, y))
		}
	}
	add("foundation", a.Foundation(), b.Foundation())
	add("component", a.Component(), b.Component())
	add("transport", a.NetworkType(), b.NetworkType())
	add("priority", a.Priority(), b.Priority())
	add("address", a.Address(), b.Address())
	add("port", a.Port(), b.Port())
	add("type", a.Type(), b.Type())
	add("tcptype", a.TCPType(), b.TCPType())
	if !a.RelatedAddress().Equal(b.RelatedAddress()) {
		d = append(d, fmt.Sprintf("related address:%v !=%v", a.RelatedAddress(), b.RelatedAddress()))
	}
	add("extensions", vfC16ExtMultiset(a), vfC16ExtMultiset(b))

	return d
}

func vfC16SigOfDiff(d []string) string {
	names := []string{}
	for _, x := range d {
		names = append(names, strings.SplitN(x, ":", 2)[0])
	}

	return strings.Join(names, "+")
}

var vfC16Seeds = []string{ //nolint:gochecknoglobals
	"750 1 udp 500 fcd9:e3b8:12ce:9fc5:74a5:c6bb:d8b:e08a 53987 typ host",
	"4273957277 1 udp 2130706431 10.0.75.1 53634 typ host",
	"1052353102 1 tcp 2128609279 192.168.0.196 0 typ host tcptype active",
	"1380287402 1 udp 2130706431 e2494022-4d9a-4c1e-a750-cc48d4f8d6ee.local 60542 typ host",
	"647372371 1 udp 1694498815 191.228.238.68 53991 typ srflx raddr 192.168.0.274 rport 53991",
	"4207374052 1 tcp 1685790463 192.0.2.15 50000 typ prflx raddr 10.0.0.1 rport 12345 generation 0 network-id 2 network-cost 10",
	"848194626 1 udp 16777215 50.0.0.1 5000 typ relay raddr 192.168.0.1 rport 5001",
	"candidate:750 1 udp 500 127.0.0.1 80 typ host",
	" 1 udp 500 127.0.0.1 80 typ host",
	"1052353102 1 tcp 2128609279 192.168.0.196 0 typ host tcptype so",
	"750 1 udp 500 10.0.0.1 65535 typ host",
	"1380287402 1 udp 2130706431 redacted-ip.invalid 60542 typ host",
	"1 1 udp 1 1.2.3.4 9 typ srflx raddr 0.0.0.0 rport 0",
	"1 1 udp 1 1.2.3.4 9 typ relay raddr :: rport 0 generation 0",
	"1 1 udp 1 fe80::1%eth0 9 typ host",
	"1 2 UDP 99 ::ffff:9.9.9.9 7 typ prflx raddr 1.1.1.1 rport 1 ufrag abc network-cost 50",
}

func vfC16Mutate(rng *rand.Rand, s string) string {
	b := []byte(s)
	toks := strings.Split(s, " ")
	switch rng.IntN(12) {
	case 0: // delete a token
		if len(toks) > 1 {
			i := rng.IntN(len(toks))
			toks = append(toks[:i], toks[i+1:]...)
		}

		return strings.Join(toks, " ")
	case 1: // duplicate a token
		i := rng.IntN(len(toks))
		toks = append(toks[:i+1], toks[i:]...)

		return strings.Join(toks, " ")
	case 2: // swap two tokens
		i, j := rng.IntN(len(toks)), rng.IntN(len(toks))
		toks[i], toks[j] = toks[j], toks[i]

		return strings.Join(toks, " ")
	case 3: // replace a token with an interesting one
		i := rng.IntN(len(toks))
		toks[i] = []string{"", "0", "65535", "65536", "99999", "4294967295", "4294967296", "9999999999", "99999999999", "raddr", "rport", "typ", "host",
			"srflx", "prflx", "relay", "tcptype", "active", "ACTIVE", "bogus", "udp", "tcp", "TCP", "0.0.0.0", "::", "a.local", "x.invalid", "1.2.3.4%z", "-1", "+1", "１", "\x00", "\n"}[rng.IntN(33)]

		return strings.Join(toks, " ")
	case 4: // truncate
		if len(b) > 0 {
			return string(b[:rng.IntN(len(b))])
		}
	case 5: // flip a byte
		if len(b) > 0 {
			b[rng.IntN(len(b))] = byte(rng.IntN(256))
		}

		return string(b)
	case 6: // insert a space
		if len(b) > 0 {
			i := rng.IntN(len(b))

			return string(b[:i]) + " " + string(b[i:])
		}
	case 7: // append extension-like tail
		return s + " " + vfC16ByteString(rng) + " " + vfC16ByteString(rng)
	case 8: // append dangling key
		return s + " " + vfC16ByteString(rng)
	case 9: // trailing space / prefix
		return []string{s + " ", "candidate:" + s, " " + s, s + "  "}[rng.IntN(4)]
	case 10: // duplicate extension key
		return s + " generation 0 generation 1 tcptype passive"
	default: // raddr tail
		return s + []string{" raddr 0.0.0.0 rport 0", " raddr 1.1.1.1 rport 0", " raddr x rport 65536", " raddr", " raddr 1.1.1.1", " raddr 1.1.1.1 rport"}[rng.IntN(6)]
	}

	return s
}

// vfC16CheckText applies the "whatever it accepts re-marshals to text that parses to an equal candidate" law.
func vfC16CheckText(r *vfResult, raw, kind string) (accepted bool) {
	var c1 Candidate
	var err error
	if p := vfRecover(func() { c1, err = UnmarshalCandidate(raw) }); p != "" {
		r.violation("text-panic:unmarshal", fmt.Sprintf("UnmarshalCandidate(%q) panicked: %s", raw, p), map[string]any{"raw": raw, "kind": kind})

		return false
	}
	if err != nil || c1 == nil {
		r.set("parse_errors", vfErrKind(err))

		return false
	}
	var m string
	var c2 Candidate
	if p := vfRecover(func() { m = c1.Marshal(); c2, err = UnmarshalCandidate(m) }); p != "" {
		r.violation("text-panic:remarshal", fmt.Sprintf("re-marshalling accepted text %q panicked: %s", raw, p), map[string]any{"raw": raw})

		return true
	}
	// an extension that is itself named raddr/rport is re-marshalled into the position where
	// the parser looks for the related address; tagged so that this input class has its own signature
	extTag := ""
	for _, x := range c1.Extensions() {
		if x.Key == "raddr" || x.Key == "rport" {
			extTag = ":ext-named-raddr-or-rport"
		}
		if x.Key == "" && extTag == "" {
			extTag = ":ext-empty-key"
		}
	}
	if err != nil {
		r.violation("text-reparse-error"+extTag, fmt.Sprintf("accepted %q, re-marshalled to %q which does not parse: %v", raw, m, err), map[string]any{"raw": raw, "remarshalled": m})

		return true
	}
	if !c1.Equal(c2) || !c2.Equal(c1) {
		sig := "text-reparse-not-equal" + extTag + ":" + vfC16SigOfDiff(vfC16Compare(c1, c2))
		r.violation(sig, fmt.Sprintf("accepted %q, re-marshalled to %q, parsed candidate not Equal: %v", raw, m, vfC16Compare(c1, c2)), map[string]any{"raw": raw, "remarshalled": m})
	} else if !c1.DeepEqual(c2) || !c2.DeepEqual(c1) {
		tag := ""
		if c1.TCPType() != TCPTypeUnspecified {
			tag = ":tcptype"
		}
		r.violation("text-reparse-not-deepequal"+extTag+tag, fmt.Sprintf("accepted %q, re-marshalled to %q, parsed candidate not DeepEqual", raw, m), map[string]any{"raw": raw, "remarshalled": m})
	}

	return true
}

func vfErrKind(err error) string {
	if err == nil {
		return "nil"
	}
	s := err.Error()
	if i := strings.Index(s, ":"); i > 0 {
		s = s[:i]
	}
	if len(s) > 40 {
		s = s[:40]
	}

	return s
}

func TestVerifC16(t *testing.T) { //nolint:cyclop,maintidx
	vfRun(t, "C16", func(e *vfEnv, r *vfResult) {
		// (1) constructor-generated candidates: round trip + equality laws.
		nC := e.n(120000, 6000000)
		rng := e.rng(0, "cands")
		var prev Candidate
		var pool []Candidate
		for i := 0; i < nC; i++ {
			spec := vfC16GenSpec(rng)
			c, err := vfC16Build(spec)
			if err != nil {
				r.violation("harness:ctor", fmt.Sprintf("constructor rejected generated spec: %v", err), spec)

				continue
			}
			r.eval(1)
			cls := fmt.Sprintf("%s/%s/%s/tcptype=%s/rel=%s/ext=%d/prio=%v/found=%v", spec.Type, spec.Network, spec.AddrForm, spec.TCPType, spec.RelForm, len(spec.Exts), spec.Priority != 0, spec.Foundation != "")
			r.distinct(cls)
			r.set("addr_forms", spec.AddrForm)
			r.set("rel_forms", spec.RelForm)
			var m string
			var back Candidate
			if p := vfRecover(func() { m = c.Marshal(); back, err = UnmarshalCandidate(m) }); p != "" {
				r.violation("roundtrip-panic", p, spec)

				continue
			}
			if i < 4 {
				r.sample(map[string]any{"spec": spec, "marshalled": m})
			}
			wit := map[string]any{"spec": spec, "marshalled": m}
			relTag := ":rel=" + spec.RelForm
			if err != nil {
				r.violation("roundtrip-parse-error"+relTag, fmt.Sprintf("Marshal gave %q which does not parse: %v", m, err), wit)

				continue
			}
			if d := vfC16Compare(c, back); len(d) > 0 {
				r.violation("roundtrip-getters:"+vfC16SigOfDiff(d)+relTag, fmt.Sprintf("%q: getters differ after round trip: %v", m, d), wit)
			}
			tcpTag := ""
			if c.TCPType() != TCPTypeUnspecified {
				tcpTag = ":tcptype"
			}
			if !c.Equal(back) || !back.Equal(c) {
				r.violation("roundtrip-not-equal"+relTag, fmt.Sprintf("%q: parsed candidate not Equal to the original", m), wit)
			} else if !c.DeepEqual(back) || !back.DeepEqual(c) {
				r.violation("roundtrip-not-deepequal"+tcpTag, fmt.Sprintf("%q: parsed candidate not DeepEqual to the original", m), wit)
			}
			// reflexivity
			if !c.Equal(c) {
				r.violation("equal-not-reflexive", fmt.Sprintf("%q: !c.Equal(c)", m), wit)
			}
			if !c.DeepEqual(c) {
				r.violation("deepequal-not-reflexive"+tcpTag, fmt.Sprintf("%q: !c.DeepEqual(c)", m), wit)
			}
			// symmetry and DeepEqual => Equal against neighbours: previous candidate, a pool member, a near-duplicate
			others := []Candidate{}
			if prev != nil {
				others = append(others, prev)
			}
			if len(pool) > 0 {
				others = append(others, pool[rng.IntN(len(pool))])
			}
			near := *spec
			switch rng.IntN(7) {
			case 0:
				near.Port = (spec.Port + 1) % 65536
			case 1:
				near.Exts = append(append([][2]string{}, spec.Exts...), [2]string{"x" + vfC16ByteString(rng), "1"})
			case 2:
				if len(spec.Exts) > 0 {
					near.Exts = append([][2]string{}, spec.Exts[1:]...)
				}
			case 3:
				near.Component = spec.Component%255 + 1
			case 4:
				if spec.Type != "host" {
					near.RelPort = (spec.RelPort + 1) % 65536
				}
			case 5:
				if spec.TCPType != "" {
					near.TCPType = map[string]string{"active": "passive", "passive": "so", "so": "active"}[spec.TCPType]
				}
			case 6:
				if len(spec.Exts) > 1 { // same multiset, other order
					near.Exts = append([][2]string{}, spec.Exts...)
					near.Exts[0], near.Exts[len(near.Exts)-1] = near.Exts[len(near.Exts)-1], near.Exts[0]
				}
			}
			if nc, err := vfC16Build(&near); err == nil {
				others = append(others, nc)
			}
			// the same transport address in its other spelling (a.b.c.d <-> ::ffff:a.b.c.d): whatever Equal answers,
			// it must answer the same in both directions
			if ip, err := netip.ParseAddr(spec.Address); err == nil && (ip.Is4() || ip.Is4In6()) {
				sib := *spec
				if ip.Is4() {
					sib.Address = "::ffff:" + ip.String()
				} else {
					sib.Address = ip.Unmap().String()
				}
				if sc, err := vfC16Build(&sib); err == nil {
					others = append(others, sc)
					r.count("c16_sibling_spelling_comparisons", 1)
				}
			}
			for _, o := range others {
				r.eval(1)
				eq1, eq2 := c.Equal(o), o.Equal(c)
				de1, de2 := c.DeepEqual(o), o.DeepEqual(c)
				ow := map[string]any{"a": m, "b": o.Marshal()}
				if eq1 != eq2 {
					r.violation("equal-not-symmetric", fmt.Sprintf("Equal not symmetric for %q / %q: %v vs %v", m, o.Marshal(), eq1, eq2), ow)
				}
				if de1 != de2 {
					r.violation("deepequal-not-symmetric"+tcpTag, fmt.Sprintf("DeepEqual not symmetric for %q / %q: %v vs %v", m, o.Marshal(), de1, de2), ow)
				}
				if (de1 && !eq1) || (de2 && !eq2) {
					r.violation("deepequal-without-equal", fmt.Sprintf("DeepEqual but not Equal for %q / %q", m, o.Marshal()), ow)
				}
				r.set("law_outcomes", fmt.Sprintf("eq=%v/deep=%v", eq1, de1))
			}
			prev = c
			if len(pool) < 64 {
				pool = append(pool, c)
			} else {
				pool[rng.IntN(64)] = c
			}
			// the marshalled form is also a text case
			if i%4 == 0 {
				mut := vfC16Mutate(rng, m)
				r.eval(1)
				if vfC16CheckText(r, mut, "mutated") {
					r.count("accepted_mutated", 1)
				}
			}
		}

		// (2) text: seeds, their mutations (several rounds), and raw random strings.
		srng := e.rng(1, "strings")
		nS := e.n(300000, 15000000)
		accepted := int64(0)
		for i := 0; i < nS; i++ {
			var raw string
			switch {
			case i < len(vfC16Seeds):
				raw = vfC16Seeds[i]
			case i%3 == 0:
				n := srng.IntN(60)
				b := make([]byte, n)
				for j := range b {
					if srng.IntN(4) == 0 {
						b[j] = byte(srng.IntN(256))
					} else {
						b[j] = " 0123456789abcdeftyphosrlxudpc.:%"[srng.IntN(33)]
					}
				}
				raw = string(b)
			default:
				raw = vfC16Seeds[srng.IntN(len(vfC16Seeds))]
				for k := 1 + srng.IntN(3); k > 0; k-- {
					raw = vfC16Mutate(srng, raw)
				}
			}
			r.eval(1)
			if vfC16CheckText(r, raw, "text") {
				accepted++
				if accepted <= 2 {
					r.sample(map[string]any{"accepted_text": raw})
				}
				r.distinct("text-accepted/" + vfC16TextShape(raw))
			}
		}
		r.count("texts", int64(nS))
		r.count("texts_accepted", accepted)

		// (3) attribute codecs.
		vfC16Attributes(e, r)
	})
}

// vfC16TextShape abstracts an accepted text by its token classes.
func vfC16TextShape(raw string) string {
	toks := strings.Split(raw, " ")
	var sb strings.Builder
	for i, tk := range toks {
		if i > 14 {
			break
		}
		switch {
		case tk == "":
			sb.WriteByte('_')
		case tk == "typ" || tk == "raddr" || tk == "rport" || tk == "tcptype" || tk == "host" || tk == "srflx" || tk == "prflx" || tk == "relay":
			sb.WriteString(tk[:2])
		case strings.Trim(tk, "0123456789") == "":
			sb.WriteByte('9')
		default:
			sb.WriteByte('s')
		}
	}

	return sb.String()
}

func vfC16Decode(m *stun.Message) (*stun.Message, error) {
	out := &stun.Message{Raw: append([]byte{}, m.Raw...)}

	return out, out.Decode()
}

func vfC16Attributes(e *vfEnv, r *vfResult) { //nolint:cyclop,maintidx
	rng := e.rng(2, "attrs")
	n := e.n(40000, 2000000)
	u32s := []uint32{0, 1, 255, 256, 1 << 16, 1<<24 - 1, 1 << 24, 1<<31 - 1, 1 << 31, 1<<32 - 1}
	u64s := []uint64{0, 1, 1<<63 - 1, 1 << 63, 1<<64 - 2, 1<<64 - 1}
	build := func(setters ...stun.Setter) (*stun.Message, error) {
		m, err := stun.Build(append([]stun.Setter{stun.BindingRequest, stun.TransactionID}, setters...)...)
		if err != nil {
			return nil, err
		}

		return vfC16Decode(m)
	}
	// destinations that are reused from one iteration to the next (a caller decoding message after message into the
	// same variable): the decoded value must not depend on what the destination held before
	var reP PriorityAttr
	var reCing AttrControlling
	var reCed AttrControlled
	var reAC AttrControl
	var reN NominationAttribute
	var reBlob DtlsInStunAttribute
	var reAck DtlsInStunAckAttribute
	for i := 0; i < n; i++ {
		r.eval(1)
		v32 := rng.Uint32()
		if i < len(u32s) {
			v32 = u32s[i]
		}
		v64 := rng.Uint64()
		if i < len(u64s) {
			v64 = u64s[i]
		}
		// PRIORITY
		if m, err := build(PriorityAttr(v32)); err != nil {
			r.violation("attr-priority-encode", err.Error(), nil)
		} else {
			var p PriorityAttr
			if err := p.GetFrom(m); err != nil || uint32(p) != v32 {
				r.violation("attr-priority-roundtrip", fmt.Sprintf("PRIORITY %d decoded as %d (%v)", v32, p, err), map[string]any{"value": v32})
			}
			if err := reP.GetFrom(m); err != nil || uint32(reP) != v32 {
				r.violation("attr-priority-roundtrip:reused-destination", fmt.Sprintf("PRIORITY %d decoded into a reused variable as %d (%v)", v32, reP, err), map[string]any{"value": v32})
			}
		}
		// ICE-CONTROLLING / ICE-CONTROLLED and the combined control attribute
		if m, err := build(AttrControlling(v64)); err == nil {
			var c AttrControlling
			var ac AttrControl
			if err := c.GetFrom(m); err != nil || uint64(c) != v64 {
				r.violation("attr-controlling-roundtrip", fmt.Sprintf("ICE-CONTROLLING %d decoded as %d (%v)", v64, c, err), map[string]any{"value": v64})
			}
			if err := ac.GetFrom(m); err != nil || ac.Role != Controlling || ac.Tiebreaker != v64 {
				r.violation("attr-control-roundtrip", fmt.Sprintf("AttrControl from ICE-CONTROLLING %d: %+v (%v)", v64, ac, err), map[string]any{"value": v64})
			}
			if err := reCing.GetFrom(m); err != nil || uint64(reCing) != v64 {
				r.violation("attr-controlling-roundtrip:reused-destination", fmt.Sprintf("ICE-CONTROLLING %d decoded into a reused variable as %d (%v)", v64, reCing, err), map[string]any{"value": v64})
			}
			if err := reAC.GetFrom(m); err != nil || reAC.Role != Controlling || reAC.Tiebreaker != v64 {
				r.violation("attr-control-roundtrip:reused-destination", fmt.Sprintf("AttrControl from ICE-CONTROLLING %d into a reused variable: %+v (%v)", v64, reAC, err), map[string]any{"value": v64})
			}
			var other AttrControlled
			if other.GetFrom(m) == nil {
				r.violation("attr-controlled-from-controlling", "ICE-CONTROLLED decoded from a message that only carries ICE-CONTROLLING", nil)
			}
		}
		if m, err := build(AttrControlled(v64)); err == nil {
			var c AttrControlled
			var ac AttrControl
			if err := c.GetFrom(m); err != nil || uint64(c) != v64 {
				r.violation("attr-controlled-roundtrip", fmt.Sprintf("ICE-CONTROLLED %d decoded as %d (%v)", v64, c, err), map[string]any{"value": v64})
			}
			if err := ac.GetFrom(m); err != nil || ac.Role != Controlled || ac.Tiebreaker != v64 {
				r.violation("attr-control-roundtrip", fmt.Sprintf("AttrControl from ICE-CONTROLLED %d: %+v (%v)", v64, ac, err), map[string]any{"value": v64})
			}
			if err := reCed.GetFrom(m); err != nil || uint64(reCed) != v64 {
				r.violation("attr-controlled-roundtrip:reused-destination", fmt.Sprintf("ICE-CONTROLLED %d decoded into a reused variable as %d (%v)", v64, reCed, err), map[string]any{"value": v64})
			}
			if err := reAC.GetFrom(m); err != nil || reAC.Role != Controlled || reAC.Tiebreaker != v64 {
				r.violation("attr-control-roundtrip:reused-destination", fmt.Sprintf("AttrControl from ICE-CONTROLLED %d into a reused variable: %+v (%v)", v64, reAC, err), map[string]any{"value": v64})
			}
		}
		role := Controlling
		if i%2 == 0 {
			role = Controlled
		}
		if m, err := build(AttrControl{Role: role, Tiebreaker: v64}); err == nil {
			var ac AttrControl
			if err := ac.GetFrom(m); err != nil || ac.Role != role || ac.Tiebreaker != v64 {
				r.violation("attr-control-roundtrip", fmt.Sprintf("AttrControl{%v,%d} decoded as %+v (%v)", role, v64, ac, err), nil)
			}
		}
		// USE-CANDIDATE
		if m, err := build(UseCandidate()); err == nil {
			if !UseCandidate().IsSet(m) {
				r.violation("attr-usecandidate", "USE-CANDIDATE not seen after encoding", nil)
			}
		}
		if m, err := build(PriorityAttr(v32)); err == nil && UseCandidate().IsSet(m) {
			r.violation("attr-usecandidate", "USE-CANDIDATE seen in a message without it", nil)
		}
		// nomination (24 bit), default and custom attribute type
		nv := v32 & 0xFFFFFF
		if i%3 == 0 {
			nv = v32 // values >= 2^24 are outside the statement; only "< 2^24 survive" is asserted
		}
		at := DefaultNominationAttribute
		if i%4 == 0 {
			at = stun.AttrType(0xC000 + rng.IntN(0x3000)) //nolint:gosec
		}
		if m, err := build(NominationSetter{Value: nv, AttrType: at}); err == nil {
			var na NominationAttribute
			if err := na.GetFromWithType(m, at); err != nil || (nv < 1<<24 && na.Value != nv) {
				r.violation("attr-nomination-roundtrip", fmt.Sprintf("nomination %d (type %#x) decoded as %d (%v)", nv, uint16(at), na.Value, err), map[string]any{"value": nv})
			}
			if at == DefaultNominationAttribute {
				var nb NominationAttribute
				if err := nb.GetFrom(m); err != nil || (nv < 1<<24 && nb.Value != nv) {
					r.violation("attr-nomination-roundtrip", fmt.Sprintf("nomination %d decoded as %d (%v)", nv, nb.Value, err), nil)
				}
			}
		}
		if m, err := build(Nomination(nv)); err == nil {
			var nb NominationAttribute
			if err := nb.GetFrom(m); err != nil || (nv < 1<<24 && nb.Value != nv) {
				r.violation("attr-nomination-roundtrip", fmt.Sprintf("Nomination(%d) decoded as %d (%v)", nv, nb.Value, err), nil)
			}
			if err := reN.GetFrom(m); err != nil || (nv < 1<<24 && reN.Value != nv) {
				r.violation("attr-nomination-roundtrip:reused-destination", fmt.Sprintf("Nomination(%d) decoded into a reused variable as %d (%v)", nv, reN.Value, err), nil)
			}
		}
		// DTLS-in-STUN and its ACK
		blob := make([]byte, rng.IntN(64))
		for j := range blob {
			blob[j] = byte(rng.IntN(256))
		}
		if m, err := build(DtlsInStunAttribute(blob)); err == nil {
			var d DtlsInStunAttribute
			if err := d.GetFrom(m); err != nil || !bytes.Equal(d, blob) {
				r.violation("attr-dtls-roundtrip", fmt.Sprintf("DTLS-in-STUN %x decoded as %x (%v)", blob, []byte(d), err), nil)
			}
			if err := reBlob.GetFrom(m); err != nil || !bytes.Equal(reBlob, blob) {
				r.violation("attr-dtls-roundtrip:reused-destination", fmt.Sprintf("DTLS-in-STUN %x decoded into a reused variable as %x (%v)", blob, []byte(reBlob), err), nil)
			}
		}
		acks := make(DtlsInStunAckAttribute, rng.IntN(7))
		for j := range acks {
			acks[j] = rng.Uint32()
		}
		m, err := build(acks)
		switch {
		case len(acks) > 4 && err == nil:
			r.violation("attr-ack-oversize-encode", fmt.Sprintf("DTLS ACK with %d values was encoded", len(acks)), nil)
		case len(acks) <= 4 && err != nil:
			r.violation("attr-ack-encode", err.Error(), nil)
		case err == nil:
			var d DtlsInStunAckAttribute
			if err := d.GetFrom(m); err != nil || fmt.Sprint([]uint32(d)) != fmt.Sprint([]uint32(acks)) {
				r.violation("attr-ack-roundtrip", fmt.Sprintf("DTLS ACK %v decoded as %v (%v)", acks, d, err), nil)
			}
			if err := reAck.GetFrom(m); err != nil || fmt.Sprint([]uint32(reAck)) != fmt.Sprint([]uint32(acks)) {
				r.violation("attr-ack-roundtrip:reused-destination", fmt.Sprintf("DTLS ACK %v decoded into a variable that held an earlier value as %v (%v)", acks, reAck, err), nil)
			}
		}
		r.distinct(fmt.Sprintf("attr/nom<2^24=%v/ack=%d/blob=%d/custom=%v", nv < 1<<24, len(acks), len(blob)/16, at != DefaultNominationAttribute))
	}
	// wrong sizes: every raw length 0..40 for the fixed-size attributes
	if e.shard == 0 {
		for size := 0; size <= 40; size++ {
			raw := make([]byte, size)
			for j := range raw {
				raw[j] = byte(rng.IntN(256))
			}
			mk := func(t stun.AttrType) *stun.Message {
				m, err := stun.Build(stun.BindingRequest, stun.TransactionID, stun.RawAttribute{Type: t, Value: raw})
				if err != nil {
					return nil
				}
				d, err := vfC16Decode(m)
				if err != nil {
					return nil
				}

				return d
			}
			check := func(name string, want int, err error) {
				r.eval(1)
				r.distinct(fmt.Sprintf("size/%s/%d", name, size))
				if size == want && err != nil {
					r.violation("attr-size-reject-valid:"+name, fmt.Sprintf("%s of correct size %d rejected: %v", name, size, err), nil)
				}
				if size != want && err == nil {
					kind := "short"
					if size > want {
						kind = "long"
					}
					r.violation("attr-size-accepts-"+kind+":"+name, fmt.Sprintf("%s accepted wrong size %d (want %d)", name, size, want), map[string]any{"size": size})
				}
			}
			if m := mk(stun.AttrPriority); m != nil {
				var p PriorityAttr
				check("PRIORITY", 4, p.GetFrom(m))
			}
			if m := mk(stun.AttrICEControlling); m != nil {
				var c AttrControlling
				check("ICE-CONTROLLING", 8, c.GetFrom(m))
				var ac AttrControl
				check("AttrControl(controlling)", 8, ac.GetFrom(m))
			}
			if m := mk(stun.AttrICEControlled); m != nil {
				var c AttrControlled
				check("ICE-CONTROLLED", 8, c.GetFrom(m))
				var ac AttrControl
				check("AttrControl(controlled)", 8, ac.GetFrom(m))
			}
			if m := mk(DefaultNominationAttribute); m != nil {
				var na NominationAttribute
				check("NOMINATION", 4, na.GetFrom(m))
			}
			if m := mk(stun.AttrDtlsInStunAck); m != nil {
				var d DtlsInStunAckAttribute
				err := d.GetFrom(m)
				r.eval(1)
				ok := size <= 16 && size%4 == 0
				if ok && (err != nil || len(d) != size/4) {
					r.violation("attr-size-reject-valid:DTLS-ACK", fmt.Sprintf("DTLS ACK of %d bytes rejected: %v", size, err), nil)
				}
				if !ok && err == nil {
					r.violation("attr-size-accepts:DTLS-ACK", fmt.Sprintf("DTLS ACK accepted wrong size %d", size), map[string]any{"size": size})
				}
			}
		}
	}
}
