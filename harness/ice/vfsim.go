//go:build verif

package ice

// E1 simnet core: an in-memory datagram switch with static NAT and a
// reachability matrix, a fake transport.Net serving an interface table, the
// shadow wire log (every datagram decoded and integrity-checked by the
// harness), the parked-ticker registry (hook H1) and the quiescence signals.

import (
	"errors"
	"fmt"
	"net"
	"net/netip"
	"os"
	"strings"
	"sync"
	"sync/atomic"
	"time"

	"github.com/pion/ice/v4/internal/verifhook"
	"github.com/pion/stun/v3"
	"github.com/pion/transport/v4"
)

// ---------------------------------------------------------------- STUN view

type vfStun struct {
	IsStun     bool    `json:"-"`
	Class      string  `json:"class,omitempty"`
	Method     string  `json:"method,omitempty"`
	Binding    bool    `json:"-"`
	TxID       string  `json:"txid,omitempty"`
	Username   string  `json:"username,omitempty"`
	HasUser    bool    `json:"-"`
	UseCand    bool    `json:"use_candidate,omitempty"`
	Nomination *uint32 `json:"nomination,omitempty"`
	Role       string  `json:"role,omitempty"` // "controlling" / "controlled" / ""
	TieBreaker uint64  `json:"tiebreaker,omitempty"`
	Priority   *uint32 `json:"priority,omitempty"`
	ErrCode    int     `json:"error_code,omitempty"`
	HasMI      bool    `json:"-"`
	AuthBy     string  `json:"auth_by,omitempty"` // name of the registered password under which MESSAGE-INTEGRITY verifies
}

// vfNomAttr: non-zero while a session runs whose agents use WithNominationAttribute (sessions run one at a time).
var vfNomAttr atomic.Uint32 //nolint:gochecknoglobals

func vfDecodeStun(data []byte, pwds map[string]string) *vfStun {
	s := &vfStun{}
	if !stun.IsMessage(data) {
		return s
	}
	m := &stun.Message{Raw: append([]byte{}, data...)}
	if err := m.Decode(); err != nil {
		return s
	}
	s.IsStun = true
	s.Class = m.Type.Class.String()
	s.Method = m.Type.Method.String()
	s.Binding = m.Type.Method == stun.MethodBinding
	s.TxID = fmt.Sprintf("%x", m.TransactionID[:])
	if u, err := m.Get(stun.AttrUsername); err == nil {
		s.Username, s.HasUser = string(u), true
	}
	s.UseCand = m.Contains(stun.AttrUseCandidate)
	var nom NominationAttribute
	if t := vfNomAttr.Load(); t != 0 {
		// the session's agents are configured with a custom nomination attribute type: only that one counts
		if nom.GetFromWithType(m, stun.AttrType(t)) == nil { //nolint:gosec
			v := nom.Value
			s.Nomination = &v
		}
	} else if nom.GetFrom(m) == nil {
		v := nom.Value
		s.Nomination = &v
	}
	var ac AttrControl
	if ac.GetFrom(m) == nil {
		s.TieBreaker = ac.Tiebreaker
		if ac.Role == Controlling {
			s.Role = "controlling"
		} else {
			s.Role = "controlled"
		}
	}
	var p PriorityAttr
	if p.GetFrom(m) == nil {
		v := uint32(p)
		s.Priority = &v
	}
	var ec stun.ErrorCodeAttribute
	if ec.GetFrom(m) == nil {
		s.ErrCode = int(ec.Code)
	}
	s.HasMI = m.Contains(stun.AttrMessageIntegrity)
	if s.HasMI {
		for name, pw := range pwds {
			if stun.MessageIntegrity([]byte(pw)).Check(m) == nil {
				if s.AuthBy == "" || name < s.AuthBy {
					s.AuthBy = name
				}
			}
		}
	}

	return s
}

// ---------------------------------------------------------------- switch

type vfDgram struct {
	ID      int            `json:"id"`
	Src     netip.AddrPort `json:"src"` // as seen on the wire (after NAT)
	Dst     netip.AddrPort `json:"dst"`
	SrcPriv netip.AddrPort `json:"src_priv"` // emitting socket
	Data    []byte         `json:"-"`
	Len     int            `json:"len"`
	Stun    *vfStun        `json:"stun,omitempty"`
	Emitter string         `json:"emitter"`
	Lost    string         `json:"lost,omitempty"` // why it never entered the in-flight pool
	Step    int            `json:"step"`
	Forged  bool           `json:"forged,omitempty"`
}

type vfDelivery struct {
	Dgram *vfDgram
	To    string // owner of the receiving endpoint
	Sock  netip.AddrPort
	Step  int
}

type vfSwitch struct {
	mu         sync.Mutex
	eps        map[netip.AddrPort]*vfConn
	all        []*vfConn
	inflight   []*vfDgram
	wire       []*vfDgram   // everything ever emitted (incl. blackholed), in emission order
	delivered  []vfDelivery // everything handed to an endpoint
	nextID     int
	nextPort   uint16
	natPub     map[netip.Addr]netip.Addr // private IP -> public IP
	natPriv    map[netip.Addr]netip.Addr // public IP -> private IP
	unreach    map[[2]netip.Addr]bool    // (src private IP, dst private IP) pairs that are NOT reachable
	pwds       map[string]string
	step       int
	failListen map[int]bool // n-th listen fails
	listens    int
	onEmit     func(*vfDgram)
	failWrite  map[string]int  // owner -> number of upcoming WriteTo calls that fail with an I/O error
	blockWrite map[string]bool // owner -> WriteTo blocks until a write deadline fires or the socket is closed
	closeErr   map[string]bool // owner -> Close returns an error (the socket is closed all the same)
	// directed schedule: ListenUDP calls of parkOwner wait on parkGate (closed by the harness); seq orders socket
	// creations against harness events (e.g. "Close returned")
	parkOwner string
	parkGate  chan struct{}
	parked    atomic.Int32
	seq       atomic.Int64
	// directed schedule: SetDeadline calls on parkDLOwner's sockets wait on parkDLGate
	parkDLOwner string
	parkDLGate  chan struct{}
	parkedDL    atomic.Int32
}

func newVfSwitch() *vfSwitch {
	return &vfSwitch{
		eps: map[netip.AddrPort]*vfConn{}, nextPort: 40000,
		natPub: map[netip.Addr]netip.Addr{}, natPriv: map[netip.Addr]netip.Addr{},
		unreach: map[[2]netip.Addr]bool{}, pwds: map[string]string{}, failWrite: map[string]int{}, blockWrite: map[string]bool{}, closeErr: map[string]bool{},
	}
}

func (s *vfSwitch) setNAT(priv, pub string) {
	s.mu.Lock()
	defer s.mu.Unlock()
	s.natPub[netip.MustParseAddr(priv)] = netip.MustParseAddr(pub)
	s.natPriv[netip.MustParseAddr(pub)] = netip.MustParseAddr(priv)
}

func (s *vfSwitch) setUnreachable(src, dst string) {
	s.mu.Lock()
	defer s.mu.Unlock()
	s.unreach[[2]netip.Addr{netip.MustParseAddr(src), netip.MustParseAddr(dst)}] = true
}

func (s *vfSwitch) addPwd(name, pwd string) {
	s.mu.Lock()
	defer s.mu.Unlock()
	s.pwds[name] = pwd
}

// pub maps a socket address to what the other side sees.
func (s *vfSwitch) pub(ap netip.AddrPort) netip.AddrPort {
	if p, ok := s.natPub[ap.Addr()]; ok {
		return netip.AddrPortFrom(p, ap.Port())
	}

	return ap
}

// priv maps a wire destination to the socket address it reaches (zero value if none: a
// NATed private address is not routable from outside).
func (s *vfSwitch) priv(ap netip.AddrPort) (netip.AddrPort, bool) {
	if p, ok := s.natPriv[ap.Addr()]; ok {
		return netip.AddrPortFrom(p, ap.Port()), true
	}
	if _, natted := s.natPub[ap.Addr()]; natted {
		return netip.AddrPort{}, false
	}

	return ap, true
}

func (s *vfSwitch) reachable(srcPriv, dstWire netip.AddrPort) bool {
	d, ok := s.priv(dstWire)
	if !ok {
		return false
	}

	return !s.unreach[[2]netip.Addr{srcPriv.Addr(), d.Addr()}]
}

type vfConn struct {
	sw            *vfSwitch
	owner         string
	local         netip.AddrPort
	inbox         chan *vfDgram
	closed        chan struct{}
	once          sync.Once
	waiting       atomic.Int64 // number of ReadFrom entries: the "reader parked again" signal
	closes        atomic.Int64
	dlMu          sync.Mutex
	rdl           time.Time
	dlCh          chan struct{}
	wdl           time.Time
	wdlCh         chan struct{}
	blockedWrites atomic.Int32
	created       string
	manual        *vfPeer // socket owned by the scripted peer: no reader goroutine, deliveries go to the peer's inbox
	tcp           bool    // a packet connection handed out by the simulated TCP mux: addresses are *net.TCPAddr
	createdSeq    int64   // position of this socket's creation in the switch's event order
}

func (c *vfConn) addr(ap netip.AddrPort) net.Addr {
	if c.tcp {
		return net.TCPAddrFromAddrPort(ap)
	}

	return net.UDPAddrFromAddrPort(ap)
}

func (c *vfConn) LocalAddr() net.Addr  { return c.addr(c.local) }
func (c *vfConn) RemoteAddr() net.Addr { return nil }
func (c *vfConn) isClosed() bool {
	select {
	case <-c.closed:
		return true
	default:
		return false
	}
}

func (c *vfConn) Close() error {
	c.closes.Add(1)
	c.once.Do(func() {
		close(c.closed)
		c.sw.mu.Lock()
		if c.sw.eps[c.local] == c {
			delete(c.sw.eps, c.local)
		}
		c.sw.mu.Unlock()
	})
	c.sw.mu.Lock()
	fail := c.sw.closeErr[c.owner]
	c.sw.mu.Unlock()
	if fail {
		return errors.New("vfConn: injected close error")
	}

	return nil
}
func (c *vfConn) SetDeadline(t time.Time) error {
	// directed schedule: SetDeadline of this owner's sockets waits on a gate (the agent's pre-stop abort calls it)
	c.sw.mu.Lock()
	gate := c.sw.parkDLGate
	if c.sw.parkDLOwner != c.owner {
		gate = nil
	}
	c.sw.mu.Unlock()
	if gate != nil {
		c.sw.parkedDL.Add(1)
		<-gate
		c.sw.parkedDL.Add(-1)
	}
	_ = c.SetWriteDeadline(t)

	return c.SetReadDeadline(t)
}

func (c *vfConn) SetWriteDeadline(t time.Time) error {
	c.dlMu.Lock()
	c.wdl = t
	ch := c.wdlCh
	c.wdlCh = make(chan struct{})
	c.dlMu.Unlock()
	if ch != nil {
		close(ch)
	}

	return nil
}
func (c *vfConn) SetReadBuffer(int) error    { return nil }
func (c *vfConn) SetWriteBuffer(int) error   { return nil }
func (c *vfConn) Write([]byte) (int, error)  { return 0, errors.New("unsupported") }
func (c *vfConn) Read(b []byte) (int, error) { n, _, err := c.ReadFrom(b); return n, err }
func (c *vfConn) SetReadDeadline(t time.Time) error {
	c.dlMu.Lock()
	c.rdl = t
	ch := c.dlCh
	c.dlCh = make(chan struct{})
	c.dlMu.Unlock()
	if ch != nil {
		close(ch)
	}

	return nil
}

// ReadFrom honours read deadlines with a real timer: pion/ice bounds its STUN
// waits with SetReadDeadline and nothing else.
func (c *vfConn) ReadFrom(p []byte) (int, net.Addr, error) {
	c.waiting.Add(1)
	for {
		c.dlMu.Lock()
		if c.dlCh == nil {
			c.dlCh = make(chan struct{})
		}
		dl := c.rdl
		ch := c.dlCh
		c.dlMu.Unlock()
		var timeout <-chan time.Time
		var tm *time.Timer
		if !dl.IsZero() {
			d := time.Until(dl)
			if d <= 0 {
				return 0, nil, os.ErrDeadlineExceeded
			}
			tm = time.NewTimer(d)
			timeout = tm.C
		}
		select {
		case d := <-c.inbox:
			if tm != nil {
				tm.Stop()
			}

			return copy(p, d.Data), c.addr(d.Src), nil
		case <-c.closed:
			if tm != nil {
				tm.Stop()
			}

			return 0, nil, net.ErrClosed
		case <-ch: // deadline changed
			if tm != nil {
				tm.Stop()
			}
		case <-timeout:
			return 0, nil, os.ErrDeadlineExceeded
		}
	}
}

func (c *vfConn) ReadFromUDP(b []byte) (int, *net.UDPAddr, error) {
	n, a, err := c.ReadFrom(b)
	if a == nil {
		return n, nil, err
	}

	return n, a.(*net.UDPAddr), err //nolint:forcetypeassert
}

func (c *vfConn) ReadMsgUDP([]byte, []byte) (int, int, int, *net.UDPAddr, error) {
	return 0, 0, 0, nil, errors.New("unsupported")
}

func (c *vfConn) WriteTo(p []byte, addr net.Addr) (int, error) {
	if c.isClosed() {
		return 0, net.ErrClosed // what a closed UDP socket reports ("use of closed network connection")
	}
	var dstAP netip.AddrPort
	switch ta := addr.(type) {
	case *net.UDPAddr:
		dstAP = ta.AddrPort()
	case *net.TCPAddr:
		if !c.tcp {
			return 0, errors.New("not a UDP address")
		}
		dstAP = ta.AddrPort()
	default:
		return 0, errors.New("not a UDP address")
	}
	c.sw.mu.Lock()
	if c.sw.failWrite[c.owner] > 0 {
		c.sw.failWrite[c.owner]--
		c.sw.mu.Unlock()

		return 0, errors.New("vfConn: injected write failure")
	}
	block := c.sw.blockWrite[c.owner]
	c.sw.mu.Unlock()
	if block {
		// a socket whose send buffer is full: blocks until a write deadline fires or the socket is closed
		c.blockedWrites.Add(1)
		defer c.blockedWrites.Add(-1)
		for {
			c.dlMu.Lock()
			if c.wdlCh == nil {
				c.wdlCh = make(chan struct{})
			}
			dl, ch := c.wdl, c.wdlCh
			c.dlMu.Unlock()
			var tm <-chan time.Time
			var t *time.Timer
			if !dl.IsZero() {
				if !time.Now().Before(dl) {
					return 0, os.ErrDeadlineExceeded
				}
				t = time.NewTimer(time.Until(dl))
				tm = t.C
			}
			select {
			case <-c.closed:
				if t != nil {
					t.Stop()
				}

				return 0, net.ErrClosed
			case <-ch:
			case <-tm:
			}
			if t != nil {
				t.Stop()
			}
		}
	}
	c.sw.emit(c, vfRefCanonAP(dstAP), p, false)

	return len(p), nil
}
func (c *vfConn) WriteToUDP(b []byte, addr *net.UDPAddr) (int, error) { return c.WriteTo(b, addr) }
func (c *vfConn) WriteMsgUDP([]byte, []byte, *net.UDPAddr) (int, int, error) {
	return 0, 0, errors.New("unsupported")
}

// emit records a datagram leaving socket c towards dst and, if the topology
// lets it through, puts it in the in-flight pool.
func (s *vfSwitch) emit(c *vfConn, dst netip.AddrPort, p []byte, forged bool) *vfDgram {
	s.mu.Lock()
	defer s.mu.Unlock()
	s.nextID++
	d := &vfDgram{
		ID: s.nextID, Src: s.pub(c.local), Dst: dst, SrcPriv: c.local, Data: append([]byte{}, p...), Len: len(p),
		Emitter: c.owner, Step: s.step, Forged: forged,
	}
	d.Stun = vfDecodeStun(d.Data, s.pwds)
	if !d.Stun.IsStun {
		d.Stun = nil
	}
	s.wire = append(s.wire, d)
	if !s.reachable(c.local, dst) {
		d.Lost = "unreachable"
	} else {
		s.inflight = append(s.inflight, d)
	}
	if s.onEmit != nil {
		s.onEmit(d)
	}

	return d
}

var errVfQuiesce = errors.New("quiescence timeout") //nolint:gochecknoglobals

// deliverID hands the in-flight datagram with that id to its destination socket and
// returns once the receiver's read loop is parked in ReadFrom again, i.e. the
// datagram was completely processed (including the task-loop task it spawned).
func (s *vfSwitch) deliverID(id int, keep bool) (delivered bool, err error) {
	s.mu.Lock()
	idx := -1
	for i, d := range s.inflight {
		if d.ID == id {
			idx = i

			break
		}
	}
	if idx < 0 {
		s.mu.Unlock()

		return false, nil
	}
	d := s.inflight[idx]
	if !keep {
		s.inflight = append(s.inflight[:idx], s.inflight[idx+1:]...)
	}
	dp, ok := s.priv(d.Dst)
	var ep *vfConn
	if ok {
		ep = s.eps[dp]
	}
	s.mu.Unlock()
	if ep == nil {
		return false, nil
	}
	if ep.manual != nil {
		if ep.isClosed() {
			return false, nil
		}
		s.mu.Lock()
		s.delivered = append(s.delivered, vfDelivery{Dgram: d, To: ep.owner, Sock: ep.local, Step: s.step})
		s.mu.Unlock()
		ep.manual.inbox = append(ep.manual.inbox, d)

		return true, nil
	}
	before := ep.waiting.Load()
	if before == 0 { // reader not started yet: the socket exists but nobody reads; the datagram is lost like on a real socket whose buffer is never read
		return false, nil
	}
	select {
	case ep.inbox <- d:
	case <-ep.closed:
		return false, nil
	case <-time.After(10 * time.Second):
		return false, fmt.Errorf("%w: reader of %s not accepting", errVfQuiesce, ep.local)
	}
	s.mu.Lock()
	s.delivered = append(s.delivered, vfDelivery{Dgram: d, To: ep.owner, Sock: ep.local, Step: s.step})
	s.mu.Unlock()
	deadline := time.Now().Add(20 * time.Second)
	for spins := 0; ep.waiting.Load() == before; spins++ {
		if ep.isClosed() {
			return true, nil
		}
		if time.Now().After(deadline) {
			return true, fmt.Errorf("%w: %s did not finish processing datagram %d", errVfQuiesce, ep.local, d.ID)
		}
		if spins < 200 {
			time.Sleep(2 * time.Microsecond)
		} else {
			time.Sleep(50 * time.Microsecond)
		}
	}

	return true, nil
}

// handOver gives datagram id to the goroutine currently blocked in ReadFrom on the destination
// socket and returns as soon as it was taken (no wait for a further ReadFrom): used for sockets
// that read exactly once, like a STUN query during gathering.
func (s *vfSwitch) handOver(id int, wait time.Duration) bool {
	s.mu.Lock()
	idx := -1
	for i, d := range s.inflight {
		if d.ID == id {
			idx = i
		}
	}
	if idx < 0 {
		s.mu.Unlock()

		return false
	}
	d := s.inflight[idx]
	s.inflight = append(s.inflight[:idx], s.inflight[idx+1:]...)
	var ep *vfConn
	if dp, ok := s.priv(d.Dst); ok {
		ep = s.eps[dp]
	}
	s.mu.Unlock()
	if ep == nil {
		return false
	}
	select {
	case ep.inbox <- d:
		s.mu.Lock()
		s.delivered = append(s.delivered, vfDelivery{Dgram: d, To: ep.owner, Sock: ep.local, Step: s.step})
		s.mu.Unlock()

		return true
	case <-ep.closed:
		return false
	case <-time.After(wait):
		return false
	}
}

func (s *vfSwitch) dropID(id int) bool {
	s.mu.Lock()
	defer s.mu.Unlock()
	for i, d := range s.inflight {
		if d.ID == id {
			s.inflight = append(s.inflight[:i], s.inflight[i+1:]...)
			d.Lost = "dropped"

			return true
		}
	}

	return false
}

func (s *vfSwitch) inflightIDs() []int {
	s.mu.Lock()
	defer s.mu.Unlock()
	ids := make([]int, len(s.inflight))
	for i, d := range s.inflight {
		ids[i] = d.ID
	}

	return ids
}

func (s *vfSwitch) setStep(n int) {
	s.mu.Lock()
	s.step = n
	s.mu.Unlock()
}

func (s *vfSwitch) wireLen() int {
	s.mu.Lock()
	defer s.mu.Unlock()

	return len(s.wire)
}

func (s *vfSwitch) wireFrom(i int) []*vfDgram {
	s.mu.Lock()
	defer s.mu.Unlock()

	return append([]*vfDgram{}, s.wire[i:]...)
}

func (s *vfSwitch) deliveredCopy() []vfDelivery {
	s.mu.Lock()
	defer s.mu.Unlock()

	return append([]vfDelivery{}, s.delivered...)
}

func (s *vfSwitch) openSockets(owner string) []*vfConn {
	s.mu.Lock()
	defer s.mu.Unlock()
	var out []*vfConn
	for _, c := range s.all {
		if (owner == "" || c.owner == owner) && !c.isClosed() {
			out = append(out, c)
		}
	}

	return out
}

// ---------------------------------------------------------------- fake transport.Net

type vfNet struct {
	sw     *vfSwitch
	owner  string
	ifMu   sync.Mutex
	ifaces []*transport.Interface
}

// addInterface makes a new interface with one address appear at run time (continual gathering watches for that).
func (n *vfNet) addInterface(name, ipStr string) {
	ip := net.ParseIP(ipStr)
	bits, ones := 128, 64
	if ip.To4() != nil {
		bits, ones = 32, 24
	}
	n.ifMu.Lock()
	defer n.ifMu.Unlock()
	ifc := transport.NewInterface(net.Interface{Index: len(n.ifaces) + 1, MTU: 1500, Name: name, Flags: net.FlagUp})
	ifc.AddAddress(&net.IPNet{IP: ip, Mask: net.CIDRMask(ones, bits)})
	n.ifaces = append(append([]*transport.Interface{}, n.ifaces...), ifc)
}

func (n *vfNet) ListenPacket(network, address string) (net.PacketConn, error) {
	ua, err := net.ResolveUDPAddr(network, address)
	if err != nil {
		return nil, err
	}

	return n.ListenUDP(network, ua)
}

func (n *vfNet) ListenUDP(network string, la *net.UDPAddr) (transport.UDPConn, error) {
	n.sw.mu.Lock()
	gate := n.sw.parkGate
	if n.sw.parkOwner != n.owner {
		gate = nil
	}
	n.sw.mu.Unlock()
	if gate != nil {
		n.sw.parked.Add(1)
		<-gate
		n.sw.parked.Add(-1)
	}
	n.sw.mu.Lock()
	defer n.sw.mu.Unlock()
	n.sw.listens++
	if n.sw.failListen[n.sw.listens] {
		return nil, errors.New("vfNet: injected listen failure")
	}
	ip, ok := netip.AddrFromSlice(la.IP)
	if !ok {
		ip = netip.IPv4Unspecified()
		if network == "udp6" {
			ip = netip.IPv6Unspecified() // like the kernel: an unspecified udp6 listener is [::]
		}
	}
	ip = ip.Unmap()
	port := uint16(la.Port) //nolint:gosec
	if port == 0 {
		for {
			n.sw.nextPort++
			if n.sw.nextPort < 40000 {
				n.sw.nextPort = 40000
			}
			if _, used := n.sw.eps[netip.AddrPortFrom(ip, n.sw.nextPort)]; !used {
				break
			}
		}
		port = n.sw.nextPort
	}
	ap := netip.AddrPortFrom(ip, port)
	if _, ok := n.sw.eps[ap]; ok {
		return nil, errors.New("vfNet: address in use")
	}
	c := &vfConn{sw: n.sw, owner: n.owner, local: ap, inbox: make(chan *vfDgram), closed: make(chan struct{}), createdSeq: n.sw.seq.Add(1)}
	n.sw.eps[ap] = c
	n.sw.all = append(n.sw.all, c)

	return c, nil
}

func (n *vfNet) ListenTCP(string, *net.TCPAddr) (transport.TCPListener, error) {
	return nil, transport.ErrNotSupported
}
func (n *vfNet) Dial(string, string) (net.Conn, error) { return nil, transport.ErrNotSupported }
func (n *vfNet) DialUDP(string, *net.UDPAddr, *net.UDPAddr) (transport.UDPConn, error) {
	return nil, transport.ErrNotSupported
}

func (n *vfNet) DialTCP(string, *net.TCPAddr, *net.TCPAddr) (transport.TCPConn, error) {
	return nil, transport.ErrNotSupported
}

func (n *vfNet) ResolveIPAddr(network, address string) (*net.IPAddr, error) {
	return net.ResolveIPAddr(network, address)
}

func (n *vfNet) ResolveUDPAddr(network, address string) (*net.UDPAddr, error) {
	return net.ResolveUDPAddr(network, address)
}

func (n *vfNet) ResolveTCPAddr(network, address string) (*net.TCPAddr, error) {
	return net.ResolveTCPAddr(network, address)
}
func (n *vfNet) Interfaces() ([]*transport.Interface, error) {
	n.ifMu.Lock()
	defer n.ifMu.Unlock()

	return n.ifaces, nil
}

func (n *vfNet) InterfaceByIndex(i int) (*transport.Interface, error) {
	ifs, _ := n.Interfaces()
	for _, ifc := range ifs {
		if ifc.Index == i {
			return ifc, nil
		}
	}

	return nil, transport.ErrInterfaceNotFound
}

func (n *vfNet) InterfaceByName(name string) (*transport.Interface, error) {
	ifs, _ := n.Interfaces()
	for _, ifc := range ifs {
		if ifc.Name == name {
			return ifc, nil
		}
	}

	return nil, transport.ErrInterfaceNotFound
}
func (n *vfNet) CreateDialer(*net.Dialer) transport.Dialer                   { return nil }
func (n *vfNet) CreateListenConfig(*net.ListenConfig) transport.ListenConfig { return nil }

// vfSimTCPMux is a TCPMux whose per-ufrag packet connections are endpoints of the switch: the agent gets ICE-TCP
// passive host candidates whose "TCP connections" are whatever the harness (playing the active peers) injects.
type vfSimTCPMux struct {
	sw    *vfSwitch
	owner string
	mu    sync.Mutex
	next  uint16
	conns map[string]*vfConn
}

func (m *vfSimTCPMux) Close() error { return nil }
func (m *vfSimTCPMux) GetConnByUfrag(ufrag string, _ bool, local net.IP) (net.PacketConn, error) {
	ip, ok := netip.AddrFromSlice(local)
	if !ok {
		return nil, errors.New("vfSimTCPMux: bad local IP")
	}
	ip = ip.Unmap()
	m.mu.Lock()
	defer m.mu.Unlock()
	key := ufrag + "|" + ip.String()
	if c, ok := m.conns[key]; ok && !c.isClosed() {
		return c, nil
	}
	m.next++
	ap := netip.AddrPortFrom(ip, 9000+m.next)
	c := &vfConn{sw: m.sw, owner: m.owner, local: ap, inbox: make(chan *vfDgram), closed: make(chan struct{}), tcp: true}
	m.sw.mu.Lock()
	m.sw.eps[ap] = c
	m.sw.all = append(m.sw.all, c)
	m.sw.mu.Unlock()
	if m.conns == nil {
		m.conns = map[string]*vfConn{}
	}
	m.conns[key] = c

	return c, nil
}

func (m *vfSimTCPMux) RemoveConnByUfrag(ufrag string) {
	m.mu.Lock()
	defer m.mu.Unlock()
	for k, c := range m.conns {
		if strings.HasPrefix(k, ufrag+"|") {
			_ = c.Close()
			delete(m.conns, k)
		}
	}
}

type vfIface struct {
	Name  string
	IPs   []string // "10.0.0.1/24" or plain IPs (then /24 or /64)
	Flags net.Flags
}

func newVfNet(sw *vfSwitch, owner string, ifs ...vfIface) *vfNet {
	n := &vfNet{sw: sw, owner: owner}
	for i, spec := range ifs {
		fl := spec.Flags
		if fl == 0 {
			fl = net.FlagUp
		}
		ifc := transport.NewInterface(net.Interface{Index: i + 1, MTU: 1500, Name: spec.Name, Flags: fl})
		for _, ipStr := range spec.IPs {
			ip := net.ParseIP(ipStr)
			bits := 128
			ones := 64
			if ip.To4() != nil {
				bits, ones = 32, 24
			}
			ifc.AddAddress(&net.IPNet{IP: ip, Mask: net.CIDRMask(ones, bits)})
		}
		n.ifaces = append(n.ifaces, ifc)
	}

	return n
}

func vfSimpleNet(sw *vfSwitch, owner string, ips ...string) *vfNet {
	ifs := make([]vfIface, 0, len(ips))
	for i, ip := range ips {
		ifs = append(ifs, vfIface{Name: fmt.Sprintf("eth%d", i), IPs: []string{ip}})
	}

	return newVfNet(sw, owner, ifs...)
}

// ---------------------------------------------------------------- parked tickers (hook H1)

var ( //nolint:gochecknoglobals
	vfTickerMu   sync.Mutex
	vfTickerWant = map[*Agent]bool{}
	vfTickers    = map[*Agent]func(){}
	vfTickerOnce sync.Once
)

func vfInstallTickerSink() {
	vfTickerOnce.Do(func() {
		verifhook.SetTickerSink(func(owner any, tick func(), _ <-chan struct{}) bool {
			a, ok := owner.(*Agent)
			if !ok {
				return false
			}
			vfTickerMu.Lock()
			defer vfTickerMu.Unlock()
			if !vfTickerWant[a] {
				return false
			}
			vfTickers[a] = tick

			return true
		})
	})
}

func vfWantTicker(a *Agent) {
	vfInstallTickerSink()
	vfTickerMu.Lock()
	vfTickerWant[a] = true
	vfTickerMu.Unlock()
}

func vfForgetTicker(a *Agent) {
	vfTickerMu.Lock()
	delete(vfTickerWant, a)
	delete(vfTickers, a)
	vfTickerMu.Unlock()
}

func vfAwaitTicker(a *Agent) (func(), error) {
	deadline := time.Now().Add(20 * time.Second)
	for {
		vfTickerMu.Lock()
		f := vfTickers[a]
		vfTickerMu.Unlock()
		if f != nil {
			return f, nil
		}
		if time.Now().After(deadline) {
			return nil, fmt.Errorf("%w: ticker hook H1 never reached", errVfQuiesce)
		}
		time.Sleep(10 * time.Microsecond)
	}
}

// ---------------------------------------------------------------- notifier quiescence

func (h *handlerNotifier) vfIdle() bool {
	h.Lock()
	defer h.Unlock()

	return len(h.connectionStates) == 0 && len(h.candidates) == 0 && len(h.selectedCandidatePairs) == 0 &&
		!h.runningConnectionStates && !h.runningCandidates && !h.runningCandidatePairs
}

func vfAwaitNotifiers(a *Agent) error {
	deadline := time.Now().Add(20 * time.Second)
	for spins := 0; ; spins++ {
		if a.connectionStateNotifier.vfIdle() && a.candidateNotifier.vfIdle() && a.selectedCandidatePairNotifier.vfIdle() {
			return nil
		}
		if time.Now().After(deadline) {
			return fmt.Errorf("%w: callback queues did not drain", errVfQuiesce)
		}
		if spins < 200 {
			time.Sleep(2 * time.Microsecond)
		} else {
			time.Sleep(50 * time.Microsecond)
		}
	}
}
