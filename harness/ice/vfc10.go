//go:build verif

package ice

// C10 (b): any public Agent/Conn method may be called from any goroutine concurrently with any
// other and with inbound traffic without data races (decided by the Go race detector: the
// driver parses and deduplicates its reports), and each call observes a state produced by whole
// preceding operations (credential operations recorded as a call/return history and checked
// offline for linearizability with porcupine).

import (
	"context"
	"encoding/json"
	"errors"
	"fmt"
	"math/rand/v2"
	"net"
	"os"
	"path/filepath"
	"sync"
	"sync/atomic"
	"testing"
	"time"

	"github.com/pion/stun/v3"
)

// autoPump delivers in-flight datagrams continuously (free-running network) until stop is closed.
func (s *vfSwitch) autoPump(stop <-chan struct{}, wg *sync.WaitGroup) {
	defer wg.Done()
	for {
		select {
		case <-stop:
			return
		default:
		}
		s.mu.Lock()
		var d *vfDgram
		if len(s.inflight) > 0 {
			d = s.inflight[0]
			s.inflight = s.inflight[1:]
		}
		if len(s.wire) > 4000 { // keep memory bounded in long free-running rounds
			s.wire = s.wire[len(s.wire)-1000:]
		}
		var ep *vfConn
		if d != nil {
			if dp, ok := s.priv(d.Dst); ok {
				ep = s.eps[dp]
			}
		}
		s.mu.Unlock()
		if d == nil {
			time.Sleep(50 * time.Microsecond)

			continue
		}
		if ep == nil || ep.manual != nil {
			continue
		}
		select {
		case ep.inbox <- d:
		case <-ep.closed:
		case <-time.After(20 * time.Millisecond): // nobody reading: dropped, like a full socket buffer
		case <-stop:
			return
		}
	}
}

type vfHammerAgent struct {
	a     *Agent
	conn  *Conn
	name  string
	calls sync.Map // method -> *atomic.Int64
}

func (h *vfHammerAgent) hit(m string) {
	v, _ := h.calls.LoadOrStore(m, &atomic.Int64{})
	v.(*atomic.Int64).Add(1) //nolint:forcetypeassert
}

func vfHammerRound(e *vfEnv, r *vfResult, idx int, loopback bool) { //nolint:cyclop,maintidx
	rng := e.rng(idx, "hammer")
	sw := newVfSwitch()
	withMux := loopback && rng.IntN(2) == 0
	if rng.IntN(2) == 0 {
		// seeded pauses at the hand-off points of the task loop, the notifier drain loops and the mux (hook H2)
		vfSetYield(newVfYieldPolicy(rand.New(rand.NewPCG(e.seed+uint64(idx), 77)), map[string]int{"*": 100}, 120)) //nolint:gosec
		defer vfSetYield(nil)
	}
	var muxClosers []func()
	defer func() {
		for _, f := range muxClosers {
			f()
		}
	}()
	mk := func(name string, ip string) (*Agent, error) {
		ci, ka := 3*time.Millisecond, 5*time.Millisecond
		dt, ft := 2*time.Second, 3*time.Second
		zero := time.Duration(0)
		mb := uint16(200)
		stunTO := 30 * time.Millisecond
		uri, _ := stun.ParseURI("stun:10.255.0.1:3478")
		cfg := &AgentConfig{
			NetworkTypes: []NetworkType{NetworkTypeUDP4}, CandidateTypes: []CandidateType{CandidateTypeHost, CandidateTypeServerReflexive},
			MulticastDNSMode: MulticastDNSModeDisabled, CheckInterval: &ci, KeepaliveInterval: &ka, DisconnectedTimeout: &dt, FailedTimeout: &ft,
			HostAcceptanceMinWait: &zero, PrflxAcceptanceMinWait: &zero, SrflxAcceptanceMinWait: &zero, MaxBindingRequests: &mb, LoggerFactory: vfQuietLogger(),
			STUNGatherTimeout: &stunTO, Urls: []*stun.URI{uri},
		}
		if loopback {
			cfg.IncludeLoopback = true
			cfg.InterfaceFilter = func(n string) bool { return n == "lo" }
			cfg.CandidateTypes = []CandidateType{CandidateTypeHost}
			cfg.Urls = nil
			if withMux {
				// shared-socket muxes over real loopback sockets: UDP mux plus ICE-TCP (passive through the TCP mux, active dialling)
				cfg.NetworkTypes = []NetworkType{NetworkTypeUDP4, NetworkTypeTCP4}
				if uc, err := net.ListenUDP("udp4", &net.UDPAddr{IP: net.IPv4(127, 0, 0, 1)}); err == nil {
					um := NewUDPMuxDefault(UDPMuxParams{UDPConn: uc, Logger: vfQuietLogger().NewLogger("ice")})
					cfg.UDPMux = um
					muxClosers = append(muxClosers, func() { _ = um.Close(); _ = uc.Close() })
				}
				if tl, err := net.Listen("tcp4", "127.0.0.1:0"); err == nil {
					tm := NewTCPMuxDefault(TCPMuxParams{Listener: tl, Logger: vfQuietLogger().NewLogger("ice"), ReadBufferSize: 32})
					cfg.TCPMux = tm
					muxClosers = append(muxClosers, func() { _ = tm.Close() })
				}
			}
		} else {
			cfg.Net = vfSimpleNet(sw, name, ip)
		}

		return newAgentFromConfig(cfg, WithRenomination(DefaultNominationValueGenerator()))
	}
	a, err := mk("A", "10.0.0.1")
	if err != nil {
		r.inconclusive(1)
		r.note("hammer: %v", err)

		return
	}
	b, err := mk("B", "10.1.0.1")
	if err != nil {
		_ = a.Close()
		r.inconclusive(1)

		return
	}
	ha, hb := &vfHammerAgent{a: a, name: "A"}, &vfHammerAgent{a: b, name: "B"}
	stop := make(chan struct{})
	var pumpWG sync.WaitGroup
	if !loopback {
		pumpWG.Add(1)
		go sw.autoPump(stop, &pumpWG)
	}
	// signalling: candidates flow to the peer as they are gathered
	for _, p := range [][2]*vfHammerAgent{{ha, hb}, {hb, ha}} {
		from, to := p[0], p[1]
		_ = from.a.OnCandidate(func(c Candidate) {
			if c == nil {
				return
			}
			if cc, err := UnmarshalCandidate(c.Marshal()); err == nil {
				_ = to.a.AddRemoteCandidate(cc)
			}
		})
		_ = from.a.OnConnectionStateChange(func(ConnectionState) {})
		_ = from.a.OnSelectedCandidatePairChange(func(Candidate, Candidate) {})
	}
	au, ap, _ := a.GetLocalUserCredentials()
	bu, bp, _ := b.GetLocalUserCredentials()
	_ = a.GatherCandidates()
	_ = b.GatherCandidates()
	ha.conn, err = a.StartDial(bu, bp)
	if err == nil {
		hb.conn, err = b.StartAccept(au, ap)
	}
	if err != nil {
		close(stop)
		pumpWG.Wait()
		_ = a.Close()
		_ = b.Close()
		r.inconclusive(1)

		return
	}
	ctx, cancel := context.WithTimeout(context.Background(), 3*time.Second)
	connected := a.AwaitConnect(ctx) == nil && b.AwaitConnect(ctx) == nil
	cancel()
	if connected {
		r.count("hammer_rounds_connected", 1)
	}
	if withMux {
		r.count("hammer_rounds_udp_tcp_mux", 1)
		if connected {
			r.count("hammer_rounds_udp_tcp_mux_connected", 1)
		}
	}
	dur := 1200 * time.Millisecond
	deadline := time.Now().Add(dur)
	nG := 8 + rng.IntN(17)
	withRestart := rng.IntN(3) == 0
	var wg sync.WaitGroup
	uri2, _ := stun.ParseURI("stun:10.255.0.2:3478")
	for g := 0; g < nG; g++ {
		grng := rand.New(rand.NewPCG(e.seed+uint64(idx)*1009+uint64(g), 10)) //nolint:gosec
		wg.Add(1)
		go func(g int) {
			defer wg.Done()
			buf := make([]byte, 2000)
			for time.Now().Before(deadline) {
				h := ha
				if grng.IntN(2) == 0 {
					h = hb
				}
				switch grng.IntN(30) {
				case 0:
					_, _ = h.a.GetLocalCandidates()
					h.hit("GetLocalCandidates")
				case 1:
					_, _ = h.a.GetRemoteCandidates()
					h.hit("GetRemoteCandidates")
				case 2:
					_, _ = h.a.GetGatheringState()
					h.hit("GetGatheringState")
				case 3:
					_, _, _ = h.a.GetLocalUserCredentials()
					h.hit("GetLocalUserCredentials")
				case 4:
					_, _, _ = h.a.GetRemoteUserCredentials()
					h.hit("GetRemoteUserCredentials")
				case 5:
					_, _ = h.a.GetSelectedCandidatePair()
					h.hit("GetSelectedCandidatePair")
				case 6:
					_ = h.a.GetCandidatePairsStats()
					h.hit("GetCandidatePairsStats")
				case 7:
					_, _ = h.a.GetSelectedCandidatePairStats()
					h.hit("GetSelectedCandidatePairStats")
				case 8:
					_ = h.a.GetLocalCandidatesStats()
					_ = h.a.GetRemoteCandidatesStats()
					h.hit("GetLocal/RemoteCandidatesStats")
				case 9:
					if c, err := NewCandidateHost(&CandidateHostConfig{Network: "udp", Address: fmt.Sprintf("10.2.%d.%d", grng.IntN(4), 1+grng.IntN(4)), Port: 5000 + grng.IntN(4), Component: 1}); err == nil {
						_ = h.a.AddRemoteCandidate(c)
					}
					h.hit("AddRemoteCandidate")
				case 10:
					ru, rp, _ := h.a.GetRemoteUserCredentials()
					if ru != "" {
						_ = h.a.SetRemoteCredentials(ru, rp)
					}
					h.hit("SetRemoteCredentials")
				case 11:
					_ = h.a.UpdateOptions(WithUrls([]*stun.URI{uri2}))
					h.hit("UpdateOptions(WithUrls)")
				case 12:
					_ = h.a.OnConnectionStateChange(func(ConnectionState) {})
					h.hit("OnConnectionStateChange")
				case 13:
					_ = h.a.OnSelectedCandidatePairChange(func(Candidate, Candidate) {})
					h.hit("OnSelectedCandidatePairChange")
				case 14:
					locs, _ := h.a.GetLocalCandidates()
					rems, _ := h.a.GetRemoteCandidates()
					if len(locs) > 0 && len(rems) > 0 {
						_ = h.a.RenominateCandidate(locs[grng.IntN(len(locs))], rems[grng.IntN(len(rems))])
					}
					h.hit("RenominateCandidate")
				case 15:
					_ = h.a.GatherCandidates()
					h.hit("GatherCandidates")
				case 16:
					c2, cn := context.WithTimeout(context.Background(), time.Millisecond)
					_ = h.a.AwaitConnect(c2)
					cn()
					h.hit("AwaitConnect")
				case 17, 18:
					p := []byte(fmt.Sprintf("\x90hammer-%d-%d", g, grng.IntN(1000)))
					_, _ = h.conn.Write(p)
					h.hit("Conn.Write")
				case 19:
					_ = h.conn.SetReadDeadline(time.Now().Add(time.Millisecond))
					_, _ = h.conn.Read(buf)
					h.hit("Conn.Read")
				case 20:
					for _, pi := range h.conn.GetCandidatePairsInfo() {
						_, _ = h.conn.WriteToPair(pi.ID, []byte("\x90pair"))

						break
					}
					h.hit("Conn.GetCandidatePairsInfo/WriteToPair")
				case 21:
					_ = h.conn.BytesSent() + h.conn.BytesReceived()
					_ = h.conn.LocalAddr()
					_ = h.conn.RemoteAddr()
					h.hit("Conn.Bytes*/LocalAddr/RemoteAddr")
				case 22:
					_ = h.conn.SetWriteDeadline(time.Now().Add(time.Second))
					_ = h.conn.SetDeadline(time.Now().Add(5 * time.Millisecond)) // never cleared: concurrent readers rely on a deadline being set
					h.hit("Conn.Set*Deadline")
				case 24:
					_ = h.a.OnCandidate(func(Candidate) {})
					h.hit("OnCandidate")
				case 25:
					// a second Dial/Accept on a started agent must be refused, not raced
					if grng.IntN(2) == 0 {
						_, _ = h.a.StartDial("x", "y")
					} else {
						_, _ = h.a.StartAccept("x", "y")
					}
					h.hit("StartDial/StartAccept(again)")
				case 23:
					if withRestart && grng.IntN(40) == 0 {
						_ = h.a.Restart("", "")
						h.hit("Restart")
					}
				default:
					time.Sleep(time.Duration(grng.IntN(200)) * time.Microsecond)
				}
			}
		}(g)
	}
	if withRestart {
		// a restarter per agent: Restart immediately followed by GatherCandidates, so that gathering cycles (which run
		// outside the task loop) overlap the next Restart
		for _, h := range []*vfHammerAgent{ha, hb} {
			wg.Add(1)
			go func(h *vfHammerAgent) {
				defer wg.Done()
				rrng := rand.New(rand.NewPCG(e.seed+uint64(idx)*7, 99)) //nolint:gosec
				for time.Now().Before(deadline) {
					_ = h.a.Restart("", "")
					h.hit("Restart")
					_ = h.a.GatherCandidates()
					h.hit("GatherCandidates")
					time.Sleep(time.Duration(rrng.IntN(4000)) * time.Microsecond)
				}
			}(h)
		}
	}
	wg.Wait()
	// concurrent closers (Close, GracefulClose, Conn.Close) while API calls still arrive
	var cw sync.WaitGroup
	for _, h := range []*vfHammerAgent{ha, hb} {
		for k := 0; k < 3; k++ {
			cw.Add(1)
			go func(h *vfHammerAgent, k int) {
				defer cw.Done()
				switch k {
				case 0:
					_ = h.a.Close()
				case 1:
					_ = h.conn.Close()
				default:
					_, _ = h.a.GetLocalCandidates()
					_, _ = h.conn.Write([]byte("\x90late"))
					_ = h.a.GracefulClose()
				}
			}(h, k)
		}
	}
	cw.Wait()
	close(stop)
	pumpWG.Wait()
	r.eval(1)
	methods := 0
	for _, h := range []*vfHammerAgent{ha, hb} {
		h.calls.Range(func(k, v any) bool {
			methods++
			r.set("c10_api_methods_called", k.(string))        //nolint:forcetypeassert
			r.count("c10_api_calls", v.(*atomic.Int64).Load()) //nolint:forcetypeassert

			return true
		})
	}
	r.distinct(fmt.Sprintf("hammer/loopback=%v/mux=%v/goroutines=%d/restart=%v/connected=%v", loopback, withMux, nG, withRestart, connected))
	if idx < 2 {
		r.sample(map[string]any{"idx": idx, "kind": "api hammer", "loopback_udp": loopback, "udp_and_tcp_mux": withMux, "goroutines": nG, "connected_before_hammer": connected, "with_restart": withRestart, "duration_ms": dur.Milliseconds()})
	}
}

// ---------------------------------------------------------------- credential history for porcupine

type vfLinzOp struct {
	Client int    `json:"client"`
	Kind   string `json:"kind"`
	A      string `json:"a"`
	B      string `json:"b"`
	OutA   string `json:"out_a"`
	OutB   string `json:"out_b"`
	Err    string `json:"err"`
	Call   int64  `json:"call"`
	Return int64  `json:"return"`
}

func vfLinzHistory(e *vfEnv, r *vfResult, idx int) {
	rng := e.rng(idx, "linz")
	a, err := NewAgent(&AgentConfig{MulticastDNSMode: MulticastDNSModeDisabled, LoggerFactory: vfQuietLogger(), NetworkTypes: []NetworkType{NetworkTypeUDP4}, Net: vfSimpleNet(newVfSwitch(), "A", "10.0.0.1")})
	if err != nil {
		r.inconclusive(1)

		return
	}
	defer a.Close() //nolint:errcheck
	base := time.Now()
	var mu sync.Mutex
	var ops []vfLinzOp
	lu, lp, _ := a.GetLocalUserCredentials()
	ops = append(ops, vfLinzOp{Client: 99, Kind: "init", OutA: lu, OutB: lp, Call: 0, Return: 1})
	nClients := 4 + rng.IntN(5)
	perClient := 3 + rng.IntN(5)
	var wg sync.WaitGroup
	var uniq atomic.Int64
	for c := 0; c < nClients; c++ {
		crng := rand.New(rand.NewPCG(e.seed+uint64(idx)*31+uint64(c), 3)) //nolint:gosec
		wg.Add(1)
		go func(c int) {
			defer wg.Done()
			for k := 0; k < perClient; k++ {
				op := vfLinzOp{Client: c}
				id := uniq.Add(1)
				switch crng.IntN(4) {
				case 0:
					op.Kind, op.A, op.B = "setremote", fmt.Sprintf("ru%06d", id), fmt.Sprintf("remotepassword%010d", id)
					op.Call = time.Since(base).Nanoseconds() + 10
					if err := a.SetRemoteCredentials(op.A, op.B); err != nil {
						op.Err = err.Error()
					}
				case 1:
					op.Kind, op.A, op.B = "restart", fmt.Sprintf("lu%06d", id), fmt.Sprintf("localpasswordlocal%010d", id)
					op.Call = time.Since(base).Nanoseconds() + 10
					if err := a.Restart(op.A, op.B); err != nil {
						op.Err = err.Error()
					}
				case 2:
					op.Kind = "getlocal"
					op.Call = time.Since(base).Nanoseconds() + 10
					var err error
					if op.OutA, op.OutB, err = a.GetLocalUserCredentials(); err != nil {
						op.Err = err.Error()
					}
				default:
					op.Kind = "getremote"
					op.Call = time.Since(base).Nanoseconds() + 10
					var err error
					if op.OutA, op.OutB, err = a.GetRemoteUserCredentials(); err != nil {
						op.Err = err.Error()
					}
				}
				op.Return = time.Since(base).Nanoseconds() + 10
				mu.Lock()
				ops = append(ops, op)
				mu.Unlock()
				if crng.IntN(3) == 0 {
					time.Sleep(time.Duration(crng.IntN(30)) * time.Microsecond)
				}
			}
		}(c)
	}
	wg.Wait()
	b, _ := json.Marshal(ops)
	_ = os.WriteFile(filepath.Join(e.out, fmt.Sprintf("linz-s%d-%d.json", e.shard, idx)), b, 0o644) //nolint:gosec
	r.eval(1)
	r.count("c10_linz_histories", 1)
	r.count("c10_linz_ops", int64(len(ops)))
	r.distinct(fmt.Sprintf("linz/clients=%d/per=%d", nClients, perClient))
}

// vfC10ConcurrentStart: StartDial / StartAccept called concurrently on a fresh agent.  Each call observes a state
// produced by whole preceding operations: exactly one of them starts the agent, every other one is refused with
// ErrMultipleStart, and role and remote credentials are those of the one that succeeded.  The task loop is kept busy
// while the calls are issued, so that they all overlap.
func vfC10ConcurrentStart(e *vfEnv, r *vfResult, idx int) {
	rng := e.rng(idx, "concurrentstart")
	a, err := NewAgent(&AgentConfig{Net: vfSimpleNet(newVfSwitch(), "A", "10.0.0.1"), NetworkTypes: []NetworkType{NetworkTypeUDP4}, CandidateTypes: []CandidateType{CandidateTypeHost},
		MulticastDNSMode: MulticastDNSModeDisabled, LoggerFactory: vfQuietLogger()})
	if err != nil {
		r.inconclusive(1)

		return
	}
	defer a.Close() //nolint:errcheck
	gate := make(chan struct{})
	busy := make(chan struct{})
	go func() {
		_ = a.loop.Run(a.loop, func(context.Context) { close(busy); <-gate })
	}()
	<-busy
	n := 2 + rng.IntN(3)
	type res struct {
		dial bool
		uf   string
		err  error
	}
	results := make(chan res, n)
	for i := 0; i < n; i++ {
		dial := rng.IntN(2) == 0
		uf := fmt.Sprintf("peer%d", i)
		go func() {
			var err error
			if dial {
				_, err = a.StartDial(uf, "passwordpasswordpasswordpassword")
			} else {
				_, err = a.StartAccept(uf, "passwordpasswordpasswordpassword")
			}
			results <- res{dial, uf, err}
		}()
	}
	time.Sleep(time.Duration(200+rng.IntN(800)) * time.Microsecond)
	close(gate)
	okCalls := []res{}
	for i := 0; i < n; i++ {
		select {
		case x := <-results:
			if x.err == nil {
				okCalls = append(okCalls, x)
			} else if !errors.Is(x.err, ErrMultipleStart) {
				r.note("concurrent start: unexpected error %v", x.err)
			}
		case <-time.After(20 * time.Second):
			r.violation("concurrent-start-stuck", fmt.Sprintf("history %d: a StartDial/StartAccept call did not return", idx), map[string]any{"idx": idx, "stacks": vfStacks()})

			return
		}
	}
	r.eval(1)
	wit := map[string]any{"idx": idx, "calls": n, "succeeded": len(okCalls)}
	if len(okCalls) != 1 {
		r.violation("concurrent-start-not-exclusive", fmt.Sprintf("history %d: %d of %d concurrent StartDial/StartAccept calls succeeded (exactly one must; the others report ErrMultipleStart)", idx, len(okCalls), n), wit)

		return
	}
	ru, _, _ := a.GetRemoteUserCredentials()
	ctl := a.isControlling.Load()
	if ru != okCalls[0].uf || ctl != okCalls[0].dial {
		r.violation("concurrent-start-mixed-state", fmt.Sprintf("history %d: the call that succeeded was %s(%s) but the agent has remote ufrag %q and controlling=%v", idx, map[bool]string{true: "StartDial", false: "StartAccept"}[okCalls[0].dial], okCalls[0].uf, ru, ctl), wit)
	}
	r.count("c10_concurrent_start_calls", int64(n))
	r.distinct(fmt.Sprintf("concurrentstart/n%d", n))
}

func TestVerifC10API(t *testing.T) {
	vfRun(t, "C10", func(e *vfEnv, r *vfResult) {
		n := e.n(24, 600)
		for i := 0; i < n; i++ {
			vfHammerRound(e, r, i, i%4 == 3)
		}
		m := e.n(160, 6000)
		for i := 0; i < m; i++ {
			vfLinzHistory(e, r, i)
		}
		for i := 0; i < e.n(200, 8000); i++ {
			vfC10ConcurrentStart(e, r, i)
		}
	})
}
