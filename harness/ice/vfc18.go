//go:build verif

package ice

// C18: gathering produces exactly the candidates the configuration allows.
// Reference-model monitor: for generated configurations (candidate types, network types incl.
// empty, port ranges, interface/IP filters, loopback flag, mDNS mode, UDP mux) and interface
// tables (multi-homed, v4/v6, down, loopback, link-local, site-local, IPv4-compatible, ULA)
// the candidates published by a real gather cycle over the fake transport.Net are compared
// with a reference set computed from the statement; plus the cycle-control clauses
// (state sequence, refused GatherCandidates, no second nil, Restart).

import (
	"context"
	"errors"
	"fmt"
	"net"
	"net/netip"
	"sort"
	"strings"
	"sync"
	"sync/atomic"
	"testing"
	"time"

	"github.com/pion/stun/v3"
)

type vfGatherCfg struct {
	Ifaces    []vfIface
	CandTypes []CandidateType
	NetTypes  []NetworkType // nil = all
	PortMin   uint16
	PortMax   uint16
	IfaceDeny map[string]bool
	IPDeny    map[string]bool
	Loopback  bool
	MDNS      MulticastDNSMode
	UDPMux    string // "", "specific", "unspecified"
	WithSTUN  bool
	TCPMux    bool // a TCP mux lends the listener for passive ICE-TCP host candidates (one per eligible address and enabled TCP family)
	UDPMuxBad bool // the UDP mux was closed before gathering: it lends nothing, and that must not cost the other candidates
}

var vfC18AddrPool = []struct { //nolint:gochecknoglobals
	ip   string
	kind string
}{
	{"10.0.0.1", "v4"}, {"10.0.1.1", "v4"}, {"192.168.7.9", "v4"}, {"172.16.3.3", "v4"},
	{"2001:db8::11", "v6"}, {"fd00:1::5", "v6-ula"}, {"fe80::1234", "v6-linklocal"}, {"fec0::7", "v6-sitelocal"},
	{"::10.1.2.3", "v6-v4compat"}, {"127.0.0.1", "v4-loopback"}, {"::1", "v6-loopback"}, {"169.254.9.9", "v4-linklocal"},
	{"fed0::1", "v6-sitelocal"}, {"feff::9", "v6-sitelocal"}, {"febf::3", "v6-linklocal"}, {"::0.0.0.9", "v6-v4compat"}, {"fc00::1", "v6-ula"},
}

func vfGenGatherCfg(rng interface{ IntN(int) int }) *vfGatherCfg {
	c := &vfGatherCfg{IfaceDeny: map[string]bool{}, IPDeny: map[string]bool{}}
	nIf := 1 + rng.IntN(4)
	used := map[string]bool{}
	for i := 0; i < nIf; i++ {
		ifc := vfIface{Name: fmt.Sprintf("eth%d", i), Flags: net.FlagUp}
		switch rng.IntN(8) {
		case 0:
			ifc.Flags = net.FlagBroadcast // down (FlagUp not set)
		case 1:
			ifc.Name, ifc.Flags = "lo", net.FlagUp|net.FlagLoopback
		case 2:
			ifc.Name, ifc.Flags = fmt.Sprintf("lo%d", i+1), net.FlagLoopback // a loopback device that is down
		}
		for k := 1 + rng.IntN(3); k > 0; k-- {
			a := vfC18AddrPool[rng.IntN(len(vfC18AddrPool))]
			if ifc.Flags&net.FlagLoopback != 0 && rng.IntN(2) == 0 {
				a = vfC18AddrPool[9+rng.IntN(2)] // the two loopback addresses
			}
			if used[a.ip] {
				continue
			}
			used[a.ip] = true
			ifc.IPs = append(ifc.IPs, a.ip)
		}
		c.Ifaces = append(c.Ifaces, ifc)
	}
	c.CandTypes = [][]CandidateType{{CandidateTypeHost}, {CandidateTypeHost}, {CandidateTypeHost, CandidateTypeServerReflexive}, {CandidateTypeServerReflexive}}[rng.IntN(4)]
	c.NetTypes = [][]NetworkType{nil, {}, {NetworkTypeUDP4}, {NetworkTypeUDP6}, {NetworkTypeUDP4, NetworkTypeUDP6}, {NetworkTypeUDP4, NetworkTypeTCP4}, {NetworkTypeTCP4}}[rng.IntN(7)]
	switch rng.IntN(4) {
	case 0:
		c.PortMin, c.PortMax = 50000, 50000+uint16(rng.IntN(4)) //nolint:gosec
	case 1:
		c.PortMin, c.PortMax = 30000, 31000
	case 2:
		if rng.IntN(2) == 0 {
			c.PortMin, c.PortMax = 0, 1100+uint16(rng.IntN(20000)) //nolint:gosec // half-open: only the upper bound (the lower one defaults to 1024)
		}
	}
	for _, ifc := range c.Ifaces {
		if rng.IntN(5) == 0 {
			c.IfaceDeny[ifc.Name] = true
		}
		for _, ip := range ifc.IPs {
			if rng.IntN(6) == 0 {
				c.IPDeny[ip] = true
			}
		}
	}
	// sometimes the filters accept nothing at all (interface absent / down, pinned address not assigned)
	switch rng.IntN(12) {
	case 0:
		for _, ifc := range c.Ifaces {
			c.IfaceDeny[ifc.Name] = true
		}
	case 1:
		for _, ifc := range c.Ifaces {
			for _, ip := range ifc.IPs {
				c.IPDeny[ip] = true
			}
		}
	}
	c.Loopback = rng.IntN(3) == 0
	c.MDNS = []MulticastDNSMode{MulticastDNSModeDisabled, MulticastDNSModeDisabled, MulticastDNSModeQueryOnly, MulticastDNSModeQueryAndGather}[rng.IntN(4)]
	if rng.IntN(6) == 0 {
		c.UDPMux = []string{"specific", "unspecified"}[rng.IntN(2)]
	}
	for _, t := range c.CandTypes {
		if t == CandidateTypeServerReflexive {
			c.WithSTUN = true
		}
	}
	tcpOn := len(c.NetTypes) == 0
	for _, nt := range c.NetTypes {
		if nt.IsTCP() {
			tcpOn = true
		}
	}
	if tcpOn && rng.IntN(2) == 0 {
		c.TCPMux = true
	}
	if c.UDPMux != "" && rng.IntN(3) == 0 {
		c.UDPMuxBad = true
	}

	return c
}

func (c *vfGatherCfg) json() map[string]any {
	ifs := []string{}
	for _, i := range c.Ifaces {
		ifs = append(ifs, fmt.Sprintf("%s(flags=%d):%v", i.Name, i.Flags, i.IPs))
	}
	cts, nts := []string{}, []string{}
	for _, t := range c.CandTypes {
		cts = append(cts, t.String())
	}
	for _, t := range c.NetTypes {
		nts = append(nts, t.String())
	}

	return map[string]any{"interfaces": ifs, "candidate_types": cts, "network_types": nts, "network_types_nil": c.NetTypes == nil, "port_min": c.PortMin, "port_max": c.PortMax,
		"iface_deny": vfSortedKeys(c.IfaceDeny), "ip_deny": vfSortedKeys(c.IPDeny), "include_loopback": c.Loopback, "mdns_mode": int(c.MDNS), "udp_mux": c.UDPMux, "tcp_mux": c.TCPMux, "udp_mux_closed": c.UDPMuxBad}
}

// eligibleAddrs is the reference: interface addresses on which the agent may open sockets itself.
func (c *vfGatherCfg) eligibleAddrs(wantV4, wantV6 bool) []netip.Addr {
	var out []netip.Addr
	for _, ifc := range c.Ifaces {
		if ifc.Flags&net.FlagUp == 0 || c.IfaceDeny[ifc.Name] {
			continue
		}
		if ifc.Flags&net.FlagLoopback != 0 && !c.Loopback {
			continue
		}
		for _, s := range ifc.IPs {
			a := netip.MustParseAddr(s)
			if c.IPDeny[s] || (a.IsLoopback() && !c.Loopback) {
				continue
			}
			if a.Is4() && !wantV4 || a.Is6() && !wantV6 {
				continue
			}
			if a.Is6() {
				b := a.As16()
				zero12 := true
				for _, x := range b[:12] {
					if x != 0 {
						zero12 = false
					}
				}
				if zero12 || (b[0] == 0xfe && b[1]&0xc0 == 0xc0) { // IPv4-compatible / site-local
					continue
				}
			}
			out = append(out, a)
		}
	}

	return out
}

type vfGatherResult struct {
	cands    []Candidate
	nils     int
	states   []GatheringState
	agent    *Agent
	sw       *vfSwitch
	effMDNS  MulticastDNSMode
	mdnsName string
	muxAddr  string
	err      error
}

func (c *vfGatherCfg) build(sw *vfSwitch) (*Agent, *UDPMuxDefault, string, error) {
	n := newVfNet(sw, "A", c.Ifaces...)
	stunTO := 20 * time.Millisecond
	cfg := &AgentConfig{
		Net: n, NetworkTypes: c.NetTypes, CandidateTypes: c.CandTypes, MulticastDNSMode: c.MDNS, LoggerFactory: vfQuietLogger(),
		PortMin: c.PortMin, PortMax: c.PortMax, IncludeLoopback: c.Loopback, STUNGatherTimeout: &stunTO,
	}
	if len(c.IfaceDeny) > 0 {
		cfg.InterfaceFilter = func(name string) bool { return !c.IfaceDeny[name] }
	}
	if len(c.IPDeny) > 0 {
		cfg.IPFilter = func(ip net.IP) bool {
			a, _ := netip.AddrFromSlice(ip)

			return !c.IPDeny[a.Unmap().String()]
		}
	}
	if c.WithSTUN {
		uri, _ := stun.ParseURI("stun:10.255.0.1:3478")
		cfg.Urls = []*stun.URI{uri}
	}
	var mux *UDPMuxDefault
	muxAddr := ""
	if c.UDPMux != "" {
		la := &net.UDPAddr{IP: net.ParseIP("10.77.0.1"), Port: 7777}
		if c.UDPMux == "unspecified" {
			la = &net.UDPAddr{IP: net.IPv4zero, Port: 7777}
		}
		mn := newVfNet(sw, "mux", c.Ifaces...)
		conn, err := mn.ListenUDP("udp", la)
		if err != nil {
			return nil, nil, "", err
		}
		mux = NewUDPMuxDefault(UDPMuxParams{UDPConn: conn, Logger: vfQuietLogger().NewLogger("ice"), Net: mn})
		cfg.UDPMux = mux
		muxAddr = la.String()
		if c.UDPMuxBad {
			_ = mux.Close()
		}
	}
	if c.TCPMux {
		cfg.TCPMux = &vfFakeTCPMux{addr: &net.TCPAddr{IP: net.IPv4zero, Port: 9443}}
	}
	a, err := NewAgent(cfg)

	return a, mux, muxAddr, err
}

func vfC18Run(e *vfEnv, r *vfResult, idx int) { //nolint:cyclop,maintidx
	rng := e.rng(idx, "c18")
	c := vfGenGatherCfg(rng)
	sw := newVfSwitch()
	a, mux, muxAddr, err := c.build(sw)
	if err != nil {
		// configurations the constructor legitimately refuses (e.g. port range) are not gather runs
		r.count("c18_config_refused", 1)
		r.set("c18_config_errors", vfErrKind(err))
		if mux != nil {
			_ = mux.Close()
		}

		return
	}
	defer func() {
		_ = a.Close()
		if mux != nil {
			_ = mux.Close()
		}
	}()
	var mu sync.Mutex
	var cands []Candidate
	nils := 0
	_ = a.OnCandidate(func(cd Candidate) {
		mu.Lock()
		if cd == nil {
			nils++
		} else {
			cands = append(cands, cd)
		}
		mu.Unlock()
	})
	effMDNS := a.mDNSMode
	mdnsName := a.mDNSName
	st0, _ := a.GetGatheringState()
	if st0 != GatheringStateNew {
		r.violation("gathering-state-initial", fmt.Sprintf("gathering state before GatherCandidates is %s", st0), map[string]any{"idx": idx, "config": c.json()})
	}
	if err := a.GatherCandidates(); err != nil {
		r.violation("gather-refused-in-new", fmt.Sprintf("GatherCandidates in state New failed: %v", err), map[string]any{"idx": idx, "config": c.json()})

		return
	}
	// back-to-back and concurrent calls while the cycle runs or after it completed must be refused
	second := a.GatherCandidates()
	var done chan struct{}
	_ = a.loop.Run(a.loop, func(context.Context) { done = a.gatherCandidateDone })
	select {
	case <-done:
	case <-time.After(20 * time.Second):
		r.inconclusive(1)
		r.note("gather cycle %d did not finish", idx)

		return
	}
	_ = vfAwaitNotifiers(a)
	third := a.GatherCandidates()
	time.Sleep(200 * time.Microsecond)
	_ = vfAwaitNotifiers(a)
	stEnd, _ := a.GetGatheringState()
	mu.Lock()
	got := append([]Candidate{}, cands...)
	gotNils := nils
	mu.Unlock()
	r.eval(1)
	wit := map[string]any{"idx": idx, "config": c.json(), "effective_mdns_mode": int(effMDNS)}
	pub := []string{}
	for _, cd := range got {
		pub = append(pub, fmt.Sprintf("%s %s %s:%d", cd.Type(), cd.NetworkType(), cd.Address(), cd.Port()))
	}
	sort.Strings(pub)
	wit["published"] = pub
	// ---- cycle control
	// a second call issued while the state is still New (the first cycle has not marked Gathering yet) may be
	// accepted - it then supersedes the first cycle; what must hold is: no overlapping cycles, one nil
	if second == nil {
		r.count("c18_second_call_accepted_while_new", 1)
	} else if !errors.Is(second, ErrMultipleGatherAttempted) {
		r.set("c18_second_call_errors", second.Error())
	}
	for i := range got {
		for j := i + 1; j < len(got); j++ {
			if got[i].Equal(got[j]) {
				r.violation("gather-duplicate-candidate", fmt.Sprintf("the same candidate %s was published twice (overlapping cycles?)", got[i]), wit)
			}
		}
	}
	if third == nil {
		r.violation("gather-call-after-complete-accepted", "GatherCandidates after the cycle completed was accepted", wit)
	}
	if gotNils != 1 {
		r.violation("gather-nil-count", fmt.Sprintf("one completed gather-once cycle emitted %d nil candidates", gotNils), wit)
	}
	if stEnd != GatheringStateComplete {
		r.violation("gathering-state-final", fmt.Sprintf("gathering state after the cycle is %s", stEnd), wit)
	}
	// ---- soundness of every published candidate
	wantV4, wantV6 := false, false
	nts := c.NetTypes
	if len(nts) == 0 {
		nts = []NetworkType{NetworkTypeUDP4, NetworkTypeUDP6, NetworkTypeTCP4, NetworkTypeTCP6}
	}
	udpEnabled := false
	ntEnabled := map[NetworkType]bool{}
	for _, nt := range nts {
		ntEnabled[nt] = true
		if nt.IsIPv4() {
			wantV4 = true
		} else {
			wantV6 = true
		}
		if nt.IsUDP() {
			udpEnabled = true
		}
	}
	typeEnabled := map[CandidateType]bool{}
	for _, t := range c.CandTypes {
		typeEnabled[t] = true
	}
	elig := c.eligibleAddrs(wantV4, wantV6)
	// effective port range: a missing lower bound defaults to 1024, a missing upper bound to 65535
	ranged := c.PortMin != 0 || c.PortMax != 0
	portLo, portHi := int(c.PortMin), int(c.PortMax)
	if ranged && portLo == 0 {
		portLo = 1024
	}
	if ranged && portHi == 0 {
		portHi = 65535
	}
	eligSet := map[netip.Addr]bool{}
	for _, x := range elig {
		eligSet[x] = true
	}
	hostSeen := map[string]bool{}
	listed, _ := a.GetLocalCandidates()
	if len(listed) != len(got) {
		r.violation("published-vs-listed", fmt.Sprintf("OnCandidate delivered %d candidates, GetLocalCandidates lists %d", len(got), len(listed)), wit)
	}
	for _, cd := range got {
		desc := fmt.Sprintf("%s %s %s:%d", cd.Type(), cd.NetworkType(), cd.Address(), cd.Port())
		if !typeEnabled[cd.Type()] {
			r.violation("candidate-type-not-enabled", "published "+desc+" although its candidate type is not enabled", wit)
		}
		isMDNSName := strings.HasSuffix(cd.Address(), ".local")
		if !isMDNSName && !ntEnabled[cd.NetworkType()] {
			r.violation("network-type-not-enabled", "published "+desc+" although its network type is not enabled", wit)
		}
		if cd.Type() == CandidateTypeHost {
			if effMDNS == MulticastDNSModeQueryAndGather {
				if cd.Address() != mdnsName {
					r.violation("mdns-ip-exposed", "mDNS gather mode but host candidate "+desc+" exposes an address instead of the mDNS name "+mdnsName, wit)
				}
			} else if isMDNSName {
				r.violation("mdns-name-unexpected", "host candidate "+desc+" carries an mDNS name although the effective mode is not gather", wit)
			}
		}
		var ip netip.Addr
		if !isMDNSName {
			ip, err = netip.ParseAddr(cd.Address())
			if err != nil {
				r.violation("candidate-address-unparsable", desc, wit)

				continue
			}
			ip = ip.Unmap()
			b := ip.As16()
			zero12 := ip.Is6()
			for _, x := range b[:12] {
				if x != 0 {
					zero12 = false
				}
			}
			if ip.Is6() && (ip.IsLinkLocalUnicast() || (b[0] == 0xfe && b[1]&0xc0 == 0xc0) || zero12) {
				r.violation("special-purpose-address-published", "published "+desc+" (link-local / site-local / IPv4-compatible IPv6)", wit)
			}
		}
		borrowed := c.UDPMux != "" && cd.Type() == CandidateTypeHost && cd.NetworkType().IsUDP()
		if cd.Type() == CandidateTypeHost && !borrowed && !isMDNSName {
			if !eligSet[ip] {
				r.violation("host-on-excluded-address", "published "+desc+" on an address excluded by interface state / filters / loopback setting / family", wit)
			}
			if ranged && !(c.TCPMux && cd.NetworkType().IsTCP()) && (cd.Port() < portLo || cd.Port() > portHi) { // (a TCP mux candidate sits on the mux's port)
				r.violation("host-port-out-of-range", fmt.Sprintf("published %s outside the configured port range %d-%d", desc, portLo, portHi), wit)
			}
			hostSeen[cd.NetworkType().NetworkShort()+"/"+ip.String()] = true
		}
		if cd.Type() == CandidateTypeServerReflexive && cd.RelatedAddress() != nil && ranged {
			if p := cd.RelatedAddress().Port; p < portLo || p > portHi {
				r.violation("srflx-base-port-out-of-range", fmt.Sprintf("published %s whose base port %d is outside %d-%d", desc, p, portLo, portHi), wit)
			}
		}
	}
	// every socket the agent opened itself (host / srflx bases) sits on an eligible address and in the port range
	for _, vc := range sw.all {
		if vc.owner != "A" || vc.local.Port() == 5353 {
			continue
		}
		ip := vc.local.Addr()
		if ip.IsUnspecified() && (len(c.IfaceDeny) > 0 || len(c.IPDeny) > 0) {
			// with an interface or IP filter configured the agent binds per accepted address; a wildcard socket would
			// send from addresses the filters excluded
			r.violation("wildcard-socket-despite-filters", fmt.Sprintf("the agent opened a socket on %s although an interface / IP filter is configured", vc.local), wit)
		}
		if !ip.IsUnspecified() && !eligSet[ip] {
			r.violation("socket-on-excluded-address", fmt.Sprintf("the agent opened a socket on %s, an address excluded by the configuration", vc.local), wit)
		}
		if ranged && (int(vc.local.Port()) < portLo || int(vc.local.Port()) > portHi) {
			r.violation("socket-port-out-of-range", fmt.Sprintf("the agent opened a socket on %s outside the configured port range %d-%d", vc.local, portLo, portHi), wit)
		}
	}
	// ---- completeness: every eligible address yields a UDP host candidate (the agent's own listener), unless a
	// mux lends the socket, mDNS hides the addresses, or the port range is smaller than the number of addresses
	// on one IP (cannot happen: ports are per address)
	// the same for passive ICE-TCP host candidates when a TCP mux lends the listener - whatever the UDP side does
	if typeEnabled[CandidateTypeHost] && c.TCPMux && effMDNS != MulticastDNSModeQueryAndGather {
		for _, ipa := range elig {
			if ipa.Is6() && ipa.IsLinkLocalUnicast() {
				continue
			}
			fam := NetworkTypeTCP4
			if ipa.Is6() {
				fam = NetworkTypeTCP6
			}
			if !ntEnabled[fam] {
				continue
			}
			r.count("c18_tcp_mux_addresses_checked", 1)
			if !hostSeen["tcp/"+ipa.String()] {
				r.violation("tcp-host-candidate-missing", fmt.Sprintf("eligible address %s (%s enabled, TCP mux configured, UDP mux: %q closed=%v) has no passive TCP host candidate", ipa, fam, c.UDPMux, c.UDPMuxBad), wit)
			}
		}
	}
	rangeOK := !ranged || portHi-portLo >= 64 // with a tiny range host and srflx sockets compete for ports: completeness not judged
	if typeEnabled[CandidateTypeHost] && udpEnabled && c.UDPMux == "" && effMDNS != MulticastDNSModeQueryAndGather && rangeOK {
		for _, ipa := range elig {
			if ipa.Is6() && ipa.IsLinkLocalUnicast() {
				continue // gathered but never published (location tracking)
			}
			fam := NetworkTypeUDP4
			if ipa.Is6() {
				fam = NetworkTypeUDP6
			}
			if !ntEnabled[fam] {
				continue
			}
			if !hostSeen["udp/"+ipa.String()] {
				sig := "host-candidate-missing"
				if len(c.NetTypes) == 0 {
					sig = "host-candidate-missing:empty-network-types"
				}
				r.violation(sig, fmt.Sprintf("eligible address %s (%s enabled) has no host candidate", ipa, fam), wit)
			}
		}
	}
	r.count("c18_candidates_published", int64(len(got)))
	r.set("c18_effective_mdns", fmt.Sprint(int(effMDNS)))
	r.distinct(fmt.Sprintf("c18/types=%v/nts=%v/ports=%v/ifdeny=%d/ipdeny=%d/lo=%v/mdns=%d/mux=%s/elig=%d/pub=%d", c.CandTypes, c.NetTypes, c.PortMin != 0, len(c.IfaceDeny), len(c.IPDeny), c.Loopback, effMDNS, c.UDPMux, len(elig), len(got)))
	if idx < 4 {
		r.sample(wit)
	}
	_ = muxAddr
}

// vfC18ActiveTCP: local candidates the agent creates outside a gathering cycle.  When a remote ICE-TCP passive
// candidate is added the agent makes active TCP host candidates of its own and publishes them; these too must belong
// to an enabled candidate type and network type and respect DisableActiveTCP.  Real loopback interface (the active
// connection binds a real local port).
func vfC18ActiveTCP(e *vfEnv, r *vfResult, idx int) { //nolint:cyclop
	rng := e.rng(idx, "activetcp")
	cts := [][]CandidateType{{CandidateTypeHost}, {CandidateTypeServerReflexive}, {CandidateTypeRelay}, {CandidateTypeHost, CandidateTypeServerReflexive}, {CandidateTypeServerReflexive, CandidateTypeRelay}, nil}[rng.IntN(6)]
	nts := [][]NetworkType{nil, {NetworkTypeUDP4}, {NetworkTypeUDP4, NetworkTypeTCP4}, {NetworkTypeTCP4}, {NetworkTypeUDP6, NetworkTypeTCP6}}[rng.IntN(5)]
	disableActive := rng.IntN(4) == 0
	stunTO := 20 * time.Millisecond
	cfg := &AgentConfig{CandidateTypes: cts, NetworkTypes: nts, IncludeLoopback: true, InterfaceFilter: func(n string) bool { return n == "lo" },
		MulticastDNSMode: MulticastDNSModeDisabled, DisableActiveTCP: disableActive, LoggerFactory: vfQuietLogger(), STUNGatherTimeout: &stunTO}
	a, err := NewAgent(cfg)
	if err != nil {
		r.inconclusive(1)
		r.note("activetcp: NewAgent: %v", err)

		return
	}
	defer a.Close() //nolint:errcheck
	var mu sync.Mutex
	var published []Candidate
	nils := 0
	_ = a.OnCandidate(func(c Candidate) {
		mu.Lock()
		if c == nil {
			nils++
		} else {
			published = append(published, c)
		}
		mu.Unlock()
	})
	gathered := rng.IntN(2) == 0
	if gathered {
		if err := a.GatherCandidates(); err == nil {
			for dl := time.Now().Add(10 * time.Second); time.Now().Before(dl); time.Sleep(100 * time.Microsecond) {
				mu.Lock()
				n := nils
				mu.Unlock()
				if n > 0 {
					break
				}
			}
		}
	}
	ln, err := net.Listen("tcp4", "127.0.0.1:0")
	if err != nil {
		r.inconclusive(1)

		return
	}
	defer ln.Close() //nolint:errcheck
	go func() {
		for {
			c, err := ln.Accept()
			if err != nil {
				return
			}
			_ = c.Close()
		}
	}()
	port := ln.Addr().(*net.TCPAddr).Port //nolint:forcetypeassert
	rc, err := NewCandidateHost(&CandidateHostConfig{Network: "tcp", Address: "127.0.0.1", Port: port, Component: 1, TCPType: TCPTypePassive})
	if err != nil {
		r.inconclusive(1)

		return
	}
	_ = a.AddRemoteCandidate(rc)
	for dl := time.Now().Add(5 * time.Second); time.Now().Before(dl); time.Sleep(50 * time.Microsecond) {
		if !strings.Contains(vfStacks(), "(*Agent).AddRemoteCandidate.func") {
			break
		}
	}
	_ = a.loop.Run(a.loop, func(context.Context) {})
	if err := vfAwaitNotifiers(a); err != nil {
		r.inconclusive(1)

		return
	}
	r.eval(1)
	typeOK := func(t CandidateType) bool {
		if len(cts) == 0 {
			return true // default: all types
		}
		for _, x := range cts {
			if x == t {
				return true
			}
		}

		return false
	}
	ntOK := func(nt NetworkType) bool {
		if len(nts) == 0 {
			return true
		}
		for _, x := range nts {
			if x == nt {
				return true
			}
		}

		return false
	}
	listed, _ := a.GetLocalCandidates()
	mu.Lock()
	all := append(append([]Candidate{}, published...), listed...)
	mu.Unlock()
	wit := map[string]any{"idx": idx, "candidate_types": fmt.Sprint(cts), "network_types": fmt.Sprint(nts), "disable_active_tcp": disableActive, "gathered_first": gathered, "remote": rc.String()}
	active := 0
	for _, c := range all {
		if c.TCPType() == TCPTypeActive {
			active++
		}
		switch {
		case !typeOK(c.Type()):
			r.violation("active-tcp-candidate-of-disabled-type", fmt.Sprintf("candidate types %v: after a remote TCP passive candidate was added the agent published / lists %s (type %s)", cts, c, c.Type()), wit)

			return
		case !ntOK(c.NetworkType()):
			r.violation("active-tcp-candidate-of-disabled-network-type", fmt.Sprintf("network types %v: the agent published / lists %s", nts, c), wit)

			return
		case disableActive && c.TCPType() == TCPTypeActive:
			r.violation("active-tcp-candidate-although-disabled", fmt.Sprintf("DisableActiveTCP is set but the agent published / lists %s", c), wit)

			return
		}
	}
	if active > 0 {
		r.count("c18_runs_with_active_tcp_candidates", 1)
	}
	r.distinct(fmt.Sprintf("activetcp/types=%v/nts=%v/disabled=%v/gathered=%v/active=%v", cts, nts, disableActive, gathered, active > 0))
}

// vfC18RestartHeld: Restart while a cycle is held in Gathering by an unanswered STUN query, followed at once by a fresh
// cycle.  The cancelled cycle contributes nothing: no nil candidate, no candidate after the Restart; the fresh cycle
// emits its candidates (all with the new ufrag) and then exactly one nil, and ends in Complete.
func vfC18RestartHeld(e *vfEnv, r *vfResult, idx int) { //nolint:cyclop
	rng := e.rng(idx, "restartheld")
	sw := newVfSwitch()
	srv, err := newVfStunServer(sw, "10.255.0.1", 3478)
	if err != nil {
		r.inconclusive(1)

		return
	}
	nIP := 1 + rng.IntN(3)
	ips := []string{}
	for i := 0; i < nIP; i++ {
		ips = append(ips, fmt.Sprintf("10.0.%d.1", i))
	}
	uri, _ := stun.ParseURI("stun:10.255.0.1:3478")
	stunTO := 3 * time.Second
	a, err := NewAgent(&AgentConfig{
		Net: vfSimpleNet(sw, "A", ips...), NetworkTypes: []NetworkType{NetworkTypeUDP4},
		CandidateTypes: []CandidateType{CandidateTypeHost, CandidateTypeServerReflexive}, Urls: []*stun.URI{uri},
		MulticastDNSMode: MulticastDNSModeDisabled, LoggerFactory: vfQuietLogger(), STUNGatherTimeout: &stunTO,
	})
	if err != nil {
		r.inconclusive(1)

		return
	}
	defer a.Close() //nolint:errcheck
	type ev struct {
		nilCand bool
		ufrag   string
		gen     int32
	}
	var mu sync.Mutex
	var log []ev
	var gen atomic.Int32
	_ = a.OnCandidate(func(c Candidate) {
		x := ev{nilCand: c == nil, gen: gen.Load()}
		if c != nil {
			if ext, ok := c.GetExtension("ufrag"); ok {
				x.ufrag = ext.Value
			}
		}
		mu.Lock()
		log = append(log, x)
		mu.Unlock()
	})
	if err := a.GatherCandidates(); err != nil {
		r.inconclusive(1)

		return
	}
	// the cycle is surely in Gathering once its STUN query is on the wire; it cannot complete (nobody answers)
	var reqs []*vfDgram
	for dl := time.Now().Add(3 * time.Second); len(reqs) == 0 && time.Now().Before(dl); time.Sleep(20 * time.Microsecond) {
		reqs = append(reqs, srv.pump()...)
	}
	if len(reqs) == 0 {
		r.inconclusive(1)

		return
	}
	time.Sleep(time.Duration(rng.IntN(300)) * time.Microsecond)
	_ = vfAwaitNotifiers(a)
	if err := a.Restart("", ""); err != nil {
		r.inconclusive(1)

		return
	}
	gen.Store(1)
	newUfrag, _, _ := a.GetLocalUserCredentials()
	if st, _ := a.GetGatheringState(); st != GatheringStateNew {
		r.violation("restart-gathering-state", fmt.Sprintf("gathering state %s right after Restart", st), map[string]any{"idx": idx})
	}
	fresh := rng.IntN(4) != 0
	if fresh {
		if err := a.GatherCandidates(); err != nil {
			r.violation("fresh-cycle-refused-after-restart", fmt.Sprintf("GatherCandidates after Restart: %v", err), map[string]any{"idx": idx})

			return
		}
		// answer the fresh cycle's queries (late answers to the cancelled cycle's queries go out as well)
		for dl := time.Now().Add(30 * time.Second); time.Now().Before(dl); time.Sleep(50 * time.Microsecond) {
			for _, q := range srv.pump() {
				_, _ = srv.reply(q, netip.MustParseAddrPort("198.51.100.9:6000"))
			}
			if st, _ := a.GetGatheringState(); st == GatheringStateComplete {
				break
			}
		}
	} else {
		time.Sleep(2 * time.Millisecond)
	}
	_ = vfAwaitNotifiers(a)
	r.eval(1)
	mu.Lock()
	evs := append([]ev{}, log...)
	mu.Unlock()
	nils, afterNil, wrongUfrag, oldAfterRestart := 0, 0, 0, 0
	seenNil, seenNew := false, false
	for _, x := range evs {
		if x.gen == 0 {
			if x.nilCand {
				nils += 100 // a nil delivered before the Restart: the held cycle cannot have completed
			}

			continue
		}
		switch {
		case x.nilCand:
			nils++
			seenNil = true
		case seenNil:
			afterNil++
		}
		// an event of the cancelled cycle that was queued before Restart may still be delivered after Restart returned
		// (callbacks are asynchronous); what must not happen is an old-cycle candidate AFTER a candidate of the fresh cycle
		if !x.nilCand && x.ufrag == newUfrag {
			seenNew = true
		}
		if !x.nilCand && x.ufrag != newUfrag && seenNew {
			wrongUfrag++
		}
	}
	// and whatever the callbacks said, only the fresh cycle's candidates may be listed
	if lc, err := a.GetLocalCandidates(); err == nil {
		for _, c := range lc {
			if ext, ok := c.GetExtension("ufrag"); ok && ext.Value != newUfrag {
				oldAfterRestart++
			}
		}
		if !fresh && len(lc) > 0 {
			oldAfterRestart += len(lc)
		}
	}
	wit := map[string]any{"idx": idx, "addresses": nIP, "fresh_cycle": fresh, "events": fmt.Sprintf("%+v", evs), "new_ufrag": newUfrag}
	wantNils := 0
	if fresh {
		wantNils = 1
	}
	if nils != wantNils {
		r.violation("gather-nil-count", fmt.Sprintf("history %d: Restart cancelled a cycle held in Gathering (fresh cycle afterwards: %v): %d nil candidate event(s), want %d", idx, fresh, nils, wantNils), wit)
	}
	if afterNil > 0 {
		r.violation("candidate-after-nil", fmt.Sprintf("history %d: %d candidate(s) were delivered after the nil candidate", idx, afterNil), wit)
	}
	if wrongUfrag > 0 || oldAfterRestart > 0 {
		r.violation("cancelled-cycle-candidate-mixed-into-fresh-cycle", fmt.Sprintf("history %d: %d candidate(s) of the cancelled cycle were delivered after candidates of the fresh cycle / %d candidate(s) of the cancelled cycle are listed after Restart", idx, wrongUfrag, oldAfterRestart), wit)
	}
	if st, _ := a.GetGatheringState(); fresh && st != GatheringStateComplete {
		r.violation("fresh-cycle-not-complete", fmt.Sprintf("history %d: the fresh cycle after Restart ended in state %s", idx, st), wit)
	}
	r.distinct(fmt.Sprintf("restartheld/ips%d/fresh=%v", nIP, fresh))
}

func TestVerifC18(t *testing.T) {
	vfRun(t, "C18", func(e *vfEnv, r *vfResult) {
		n := e.n(4000, 200000)
		for i := 0; i < n; i++ {
			if e.only >= 0 && i != e.only {
				continue
			}
			vfC18Run(e, r, i)
		}
		for i := 0; i < e.n(150, 6000); i++ {
			vfC18ActiveTCP(e, r, i)
		}
		for i := 0; i < e.n(150, 6000); i++ {
			vfC18RestartHeld(e, r, i)
		}
		// Restart racing a running cycle (old results must not be mixed into the new generation)
		m := e.n(300, 10000)
		for i := 0; i < m; i++ {
			vfC06RestartRace(e, r, 1000000+i, "C18")
		}
	})
}
