//go:build verif

package ice

// C01 workload: random topologies, lossy/reordering/duplicating prefix chosen by a
// seeded scheduler, fair loss-free suffix, convergence/mirror oracle computed from the
// harness's own topology. The same histories feed the C03/C04/C06 monitors.

import (
	"fmt"
	"net/netip"
	"strings"
	"testing"
	"time"
)

type vfTopo struct {
	AIPs, BIPs   []string
	NAT          map[string]string // private -> public
	Unreach      [][2]string       // directed (src private IP, dst private IP) that is cut
	SignalA      map[string]string // A's IP -> how B is told about it: host / srflx / skip / host+srflx
	SignalB      map[string]string
	V6           bool
	ABudgetLarge bool
}

func vfGenTopo(s *vfSession) *vfTopo {
	rng := s.rng
	t := &vfTopo{NAT: map[string]string{}, SignalA: map[string]string{}, SignalB: map[string]string{}}
	na, nb := 1+rng.IntN(4), 1+rng.IntN(4)
	if rng.IntN(3) == 0 {
		na, nb = 1+rng.IntN(2), 1+rng.IntN(2)
	}
	t.V6 = rng.IntN(4) == 0
	for i := 0; i < na; i++ {
		if t.V6 && i%2 == 1 {
			t.AIPs = append(t.AIPs, fmt.Sprintf("fd00:a::%d", i+1))
		} else {
			t.AIPs = append(t.AIPs, fmt.Sprintf("10.0.%d.1", i))
		}
	}
	for i := 0; i < nb; i++ {
		if t.V6 && i%2 == 1 {
			t.BIPs = append(t.BIPs, fmt.Sprintf("fd00:b::%d", i+1))
		} else {
			t.BIPs = append(t.BIPs, fmt.Sprintf("10.1.%d.1", i))
		}
	}
	sigModes := []string{"host", "host", "host", "skip"}
	for i, ip := range append(append([]string{}, t.AIPs...), t.BIPs...) {
		isA := i < len(t.AIPs)
		mode := sigModes[rng.IntN(len(sigModes))]
		if !strings.Contains(ip, ":") && rng.IntN(4) == 0 { // NAT this address
			t.NAT[ip] = fmt.Sprintf("100.64.%d.%d", i, 1+rng.IntN(200))
			mode = []string{"srflx", "srflx", "skip", "host", "host+srflx"}[rng.IntN(5)]
		}
		if isA {
			t.SignalA[ip] = mode
		} else {
			t.SignalB[ip] = mode
		}
	}
	// reachability: mostly full; sometimes one-way cuts; sometimes fully partitioned
	switch rng.IntN(8) {
	case 0, 1: // full partition in at least one direction for every pair
		for _, a := range t.AIPs {
			for _, b := range t.BIPs {
				if rng.IntN(2) == 0 {
					t.Unreach = append(t.Unreach, [2]string{a, b})
				} else {
					t.Unreach = append(t.Unreach, [2]string{b, a})
				}
				if rng.IntN(3) == 0 {
					t.Unreach = append(t.Unreach, [2]string{a, b}, [2]string{b, a})
				}
			}
		}
	case 2, 3, 4: // random cuts
		for _, a := range t.AIPs {
			for _, b := range t.BIPs {
				if rng.IntN(3) == 0 {
					t.Unreach = append(t.Unreach, [2]string{a, b})
				}
				if rng.IntN(3) == 0 {
					t.Unreach = append(t.Unreach, [2]string{b, a})
				}
			}
		}
	}
	t.ABudgetLarge = rng.IntN(2) == 0

	return t
}

// clearNAT removes all NAT mappings; addresses that were to be signalled as srflx (a public
// address) are then signalled as plain host candidates, so that no two signalled candidates
// share one transport address.
func (t *vfTopo) clearNAT() {
	t.NAT = map[string]string{}
	for _, m := range []map[string]string{t.SignalA, t.SignalB} {
		for ip, mode := range m {
			if mode == "srflx" || mode == "host+srflx" {
				m[ip] = "host"
			}
		}
	}
}

func (t *vfTopo) cut(src, dst string) bool {
	for _, u := range t.Unreach {
		if u[0] == src && u[1] == dst {
			return true
		}
	}

	return false
}

// bidirectional lists the candidate pairs that are reachable in both directions and that at
// least one side can learn about: an address is known to a side if it was signalled in a
// routable form, or if it is discovered as peer-reflexive because the other side can send a
// check (to any address it knows) that gets through. Computed as a fixpoint.
func (t *vfTopo) bidirectional() []string {
	routable := func(mode string, natted bool) bool {
		switch mode {
		case "skip", "":
			return false
		case "host":
			return !natted // a NATed private address is not routable from outside
		default:
			return true
		}
	}
	v6 := func(ip string) bool { return strings.Contains(ip, ":") }
	knowA := map[string]bool{} // B addresses that A knows (in a routable form)
	knowB := map[string]bool{}
	for _, a := range t.AIPs {
		_, nat := t.NAT[a]
		if routable(t.SignalA[a], nat) {
			knowB[a] = true
		}
	}
	for _, b := range t.BIPs {
		_, nat := t.NAT[b]
		if routable(t.SignalB[b], nat) {
			knowA[b] = true
		}
	}
	for changed := true; changed; {
		changed = false
		for _, b := range t.BIPs {
			for _, a := range t.AIPs {
				if v6(a) != v6(b) {
					continue
				}
				// B sends from b to a (which it knows): A discovers b as peer-reflexive
				if knowB[a] && !t.cut(b, a) && !knowA[b] {
					knowA[b], changed = true, true
				}
				if knowA[b] && !t.cut(a, b) && !knowB[a] {
					knowB[a], changed = true, true
				}
			}
		}
	}
	var out []string
	for _, a := range t.AIPs {
		for _, b := range t.BIPs {
			if v6(a) != v6(b) || t.cut(a, b) || t.cut(b, a) {
				continue
			}
			if knowA[b] || knowB[a] {
				out = append(out, a+"<->"+b)
			}
		}
	}

	return out
}

func (s *vfSession) applyTopo(t *vfTopo) {
	for p, q := range t.NAT {
		s.sw.setNAT(p, q)
	}
	for _, u := range t.Unreach {
		s.sw.setUnreachable(u[0], u[1])
	}
}

type vfPendingSignal struct {
	to   *vfSide
	cand Candidate
	desc string
}

// signalList computes which candidates each side will be told.
func (s *vfSession) signalList(t *vfTopo) ([]vfPendingSignal, error) {
	var out []vfPendingSignal
	add := func(from, to *vfSide, modes map[string]string) error {
		for _, c := range from.localCands() {
			if c.NetworkType().IsTCP() {
				continue // ICE-TCP passive candidates (C02 sessions) are reached by the harness only, not signalled to the peer agent
			}
			mode := modes[c.Address()]
			for _, m := range strings.Split(mode, "+") {
				sc, err := s.signalled(c, m)
				if err != nil {
					return err
				}
				if sc != nil {
					out = append(out, vfPendingSignal{to: to, cand: sc, desc: fmt.Sprintf("%s told %s %s", to.name, m, vfCandAddr(sc))})
				}
			}
		}

		return nil
	}
	if err := add(s.A, s.B, t.SignalA); err != nil {
		return nil, err
	}
	if err := add(s.B, s.A, t.SignalB); err != nil {
		return nil, err
	}
	s.rng.Shuffle(len(out), func(i, j int) { out[i], out[j] = out[j], out[i] })

	return out, nil
}

// setupPair builds both agents on the topology, gathers and starts them in the given roles.
func (s *vfSession) setupPair(t *vfTopo, ca, cb vfSideCfg, aControlling, bControlling bool) error {
	s.applyTopo(t)
	ca.Name, cb.Name = "A", "B"
	ca.IPs, cb.IPs = t.AIPs, t.BIPs
	var err error
	if s.A, err = s.newSide(ca); err != nil {
		return err
	}
	if s.B, err = s.newSide(cb); err != nil {
		return err
	}
	if err = s.A.gather(); err != nil {
		return err
	}
	if err = s.B.gather(); err != nil {
		return err
	}
	if s.beforeStart != nil {
		s.beforeStart() // e.g. remote candidates signalled before Dial/Accept
	}
	if err = s.A.start(aControlling, s.B.ufrag, s.B.pwd); err != nil {
		return err
	}

	if err = s.B.start(bControlling, s.A.ufrag, s.A.pwd); err != nil {
		return err
	}
	for _, x := range s.sides() {
		if err = vfAwaitNotifiers(x.a); err != nil { // the Checking notification of the start is delivered asynchronously
			return err
		}
	}

	return nil
}

// chaos runs n scheduler steps: ticks (bounded per agent), deliveries in random order, drops, duplicates, trickling.
func (s *vfSession) chaos(n int, tickBudget map[*vfSide]int, pending *[]vfPendingSignal, lossy bool) {
	for i := 0; i < n && s.broken == ""; i++ {
		ids := s.sw.inflightIDs()
		k := s.rng.IntN(12)
		switch {
		case k == 0 && tickBudget[s.A] > 0:
			tickBudget[s.A]--
			s.tickSide(s.A)
		case k == 1 && tickBudget[s.B] > 0:
			tickBudget[s.B]--
			s.tickSide(s.B)
		case k == 2 && len(*pending) > 0:
			p := (*pending)[0]
			*pending = (*pending)[1:]
			s.step("addremote", p.to.name, 0, p.desc)
			p.to.addRemote(p.cand)
			s.afterStep()
			if s.rng.IntN(5) == 0 { // duplicate trickle
				s.step("addremote", p.to.name, 0, p.desc+" (again)")
				p.to.addRemote(p.cand)
				s.afterStep()
			}
		case k <= 4 && lossy && len(ids) > 0:
			s.drop(ids[s.rng.IntN(len(ids))])
			s.r.count("drops", 1)
		case k == 5 && lossy && len(ids) > 0:
			s.deliver(ids[s.rng.IntN(len(ids))], true)
			s.r.count("dups", 1)
		case len(ids) > 0:
			j := s.rng.IntN(len(ids))
			if j > 0 {
				s.r.count("reorders", 1)
			}
			s.deliver(ids[j], false)
		case tickBudget[s.A] > 0 && s.rng.IntN(2) == 0:
			tickBudget[s.A]--
			s.tickSide(s.A)
		case tickBudget[s.B] > 0:
			tickBudget[s.B]--
			s.tickSide(s.B)
		}
	}
}

// fairSuffix: everything still pending is trickled, then rounds of {tick A, tick B, deliver everything}.
func (s *vfSession) fairSuffix(pending *[]vfPendingSignal, rounds int, done func() bool) int {
	for _, p := range *pending {
		s.step("addremote", p.to.name, 0, p.desc)
		p.to.addRemote(p.cand)
		s.afterStep()
	}
	*pending = nil
	for r := 0; r < rounds && s.broken == ""; r++ {
		s.deliverAll(true, 2000)
		if done != nil && done() {
			return r
		}
		if s.rng.IntN(2) == 0 {
			s.tickSide(s.A)
			s.tickSide(s.B)
		} else {
			s.tickSide(s.B)
			s.tickSide(s.A)
		}
	}
	s.deliverAll(true, 2000)

	return rounds
}

func (s *vfSession) bothConnectedMirror() (ok bool, why string) {
	sa, sb := s.A.snapshot(), s.B.snapshot()
	if sa.Err != nil || sb.Err != nil {
		return false, "snapshot failed"
	}
	if sa.State != ConnectionStateConnected || sb.State != ConnectionStateConnected {
		return false, fmt.Sprintf("states %s / %s", sa.State, sb.State)
	}
	if sa.Selected == "" || sb.Selected == "" {
		return false, "no selected pair"
	}
	ap := strings.SplitN(sa.Selected, "|", 2)
	bp := strings.SplitN(sb.Selected, "|", 2)
	aL, _ := netip.ParseAddrPort(strings.SplitN(ap[0], "/", 2)[1])
	aR, _ := netip.ParseAddrPort(strings.SplitN(ap[1], "/", 2)[1])
	bL, _ := netip.ParseAddrPort(strings.SplitN(bp[0], "/", 2)[1])
	bR, _ := netip.ParseAddrPort(strings.SplitN(bp[1], "/", 2)[1])
	if s.sw.pub(aL) != bR || s.sw.pub(bL) != aR {
		return false, fmt.Sprintf("not mirror images: A %s, B %s", sa.Selected, sb.Selected)
	}
	if strings.SplitN(ap[0], "/", 2)[0] != strings.SplitN(bp[0], "/", 2)[0] {
		return false, "different transports"
	}

	return true, sa.Selected + " ~ " + sb.Selected
}

// dataWorks writes one tagged datagram each way over the Conn and checks it is read at the peer.
func (s *vfSession) dataWorks() (bool, string) {
	for _, dir := range [][2]*vfSide{{s.A, s.B}, {s.B, s.A}} {
		from, to := dir[0], dir[1]
		payload := []byte(fmt.Sprintf("\xAAdata-%s-%d-%d", from.name, s.idx, s.stepN))
		s.step("write", from.name, 0, "")
		if _, err := from.conn.Write(payload); err != nil {
			return false, fmt.Sprintf("%s.Write: %v", from.name, err)
		}
		s.deliverAll(false, 50)
		buf := make([]byte, 2048)
		_ = to.conn.SetReadDeadline(time.Now().Add(5 * time.Second))
		n, err := to.conn.Read(buf)
		if err != nil || string(buf[:n]) != string(payload) {
			return false, fmt.Sprintf("%s wrote %q, %s read %q (%v)", from.name, payload, to.name, buf[:n], err)
		}
	}

	return true, ""
}

func vfC01Run(e *vfEnv, r *vfResult, idx int) {
	s := newVfSession(e, r, idx, "c01")
	defer s.closeAll()
	t := vfGenTopo(s)
	reach := t.bidirectional()
	s.desc["topology"] = t
	s.desc["bidirectional_pairs"] = reach
	mb := uint16(7)
	if t.ABudgetLarge {
		mb = 1000
	}
	// one session in four signals (some of) the candidates before Dial/Accept, as applications that exchange a complete
	// offer/answer do: those pairs are formed before the agent knows its role
	var pending []vfPendingSignal
	var err error
	preStart := s.rng.IntN(4) == 0
	if preStart {
		s.beforeStart = func() {
			if pending, err = s.signalList(t); err != nil {
				return
			}
			nUp := s.rng.IntN(len(pending) + 1)
			for _, p := range pending[:nUp] {
				s.step("addremote-before-start", p.to.name, 0, p.desc)
				p.to.addRemote(p.cand)
			}
			pending = pending[nUp:]
		}
	}
	if err := s.setupPair(t, vfSideCfg{MaxBinding: mb, TieBreaker: 1000 + uint64(s.rng.IntN(1000))}, vfSideCfg{MaxBinding: mb, TieBreaker: 5000 + uint64(s.rng.IntN(1000))}, true, false); err != nil { //nolint:gosec
		r.inconclusive(1)
		r.note("setup failed: %v", err)

		return
	}
	if !preStart {
		pending, err = s.signalList(t)
	}
	if err != nil {
		r.inconclusive(1)

		return
	}
	s.noPairPossible = len(reach) == 0
	if preStart {
		r.count("sessions_signalled_before_start", 1)
		s.afterStep()
	} else {
		// some candidates are signalled before any check, the rest trickles during the chaos phase
		nUp := s.rng.IntN(len(pending) + 1)
		for _, p := range pending[:nUp] {
			s.step("addremote", p.to.name, 0, p.desc)
			p.to.addRemote(p.cand)
			s.afterStep()
		}
		pending = pending[nUp:]
	}
	budget := map[*vfSide]int{s.A: 3, s.B: 3}
	chaosN := s.rng.IntN(60)
	if mb == 1000 {
		budget = map[*vfSide]int{s.A: 40, s.B: 40}
		chaosN = s.rng.IntN(400)
	}
	s.chaos(chaosN, budget, &pending, true)
	if s.rng.IntN(3) == 0 {
		s.dropAll() // everything in flight at the end of the lossy prefix is lost
	}
	rounds := s.fairSuffix(&pending, 12, func() bool { ok, _ := s.bothConnectedMirror(); return ok && len(s.sw.inflightIDs()) == 0 })
	s.emittedCheck(0)
	r.eval(1)
	r.count("steps", int64(s.stepN))
	if s.broken != "" {
		r.inconclusive(1)
		r.note("run %d lost quiescence: %s", idx, s.broken)

		return
	}
	if time.Since(s.start) > 3*time.Second {
		r.outOfScope(1) // transaction expiry (4 s wall clock) could have interfered: not judged

		return
	}
	key := fmt.Sprintf("topo a=%d b=%d nat=%d cuts=%d v6=%v reach=%d budget=%d chaos=%d", len(t.AIPs), len(t.BIPs), len(t.NAT), len(t.Unreach), t.V6, len(reach), mb, chaosN/20)
	r.distinct(key)
	if len(reach) == 0 {
		r.count("runs_without_reachable_pair", 1)
		// the never-connected monitor ran after every step; re-assert at the end through the public API
		for _, x := range s.sides() {
			if p, _ := x.a.GetSelectedCandidatePair(); p != nil {
				s.viol("C01", "connected-without-reachable-pair", fmt.Sprintf("%s has a selected pair although no pair is reachable in both directions", x.name), nil)
			}
		}
		if idx < 40 {
			r.sample(map[string]any{"idx": idx, "topology": t, "bidirectional_pairs": reach, "steps": s.stepN, "outcome": "never connected (as required)"})
		}

		return
	}
	ok, why := s.bothConnectedMirror()
	if !ok {
		s.viol("C01", "no-convergence", fmt.Sprintf("a pair reachable in both directions exists (%v) but after the fair loss-free suffix (%d rounds): %s", reach, rounds, why), nil)

		return
	}
	r.count("converged", 1)
	r.set("c01_rounds_to_converge", fmt.Sprint(rounds))
	if dok, dwhy := s.dataWorks(); !dok {
		s.viol("C01", "selected-pair-does-not-carry-data", dwhy, nil)
	}
	if idx < 3 {
		r.sample(map[string]any{"idx": idx, "topology": t, "bidirectional_pairs": reach, "steps": s.stepN, "final": why, "suffix_rounds": rounds})
	}
}

func TestVerifC01(t *testing.T) {
	vfRun(t, "C01", func(e *vfEnv, r *vfResult) {
		n := e.n(3000, 200000)
		for i := 0; i < n; i++ {
			if e.only >= 0 && i != e.only {
				continue
			}
			vfC01Run(e, r, i)
		}
	})
}
