//go:build verif

package ice

// C08: Close always terminates, unblocks everyone, and is final.
// Fault enumeration: Close / GracefulClose / Conn.Close injected at every position of a scripted
// agent lifetime (new, gathering with a STUN query outstanding, gathered, checking, connected,
// restarted, re-gathering), from an API goroutine or from inside each of the three callbacks,
// with 1-4 concurrent closers, repeated closes, callers parked in Read / Dial / Accept /
// AwaitConnect, and socket faults (write blocks until deadline or close, Close returns an error).
// Verdicts come from a stuck detector (two identical goroutine dumps), not from a timer.

import (
	"context"
	"errors"
	"fmt"
	"net"
	"net/netip"
	"regexp"
	"sort"
	"strings"
	"sync"
	"sync/atomic"
	"syscall"
	"testing"
	"time"

	"github.com/pion/stun/v3"
)

var vfGoroutineHdr = regexp.MustCompile(`(?m)^goroutine (\d+) [^\n]*\[([^\]]*)\]:`) //nolint:gochecknoglobals

// vfAgentGoroutines lists goroutines that were started by pion/ice code (the go statement sits in a
// non-harness file of the module). Harness goroutines blocked inside an agent call are not in this set;
// they are judged as "parked callers".
func vfAgentGoroutines() map[string]string {
	out := map[string]string{}
	for _, g := range strings.Split(vfStacks(), "\n\n") {
		m := vfGoroutineHdr.FindStringSubmatch(g)
		if m == nil {
			continue
		}
		lines := strings.Split(strings.TrimRight(g, "\n"), "\n")
		for i, l := range lines {
			if strings.HasPrefix(l, "created by github.com/pion/ice/v4") && i+1 < len(lines) &&
				!strings.Contains(lines[i+1], "zz_verif") && !strings.Contains(l, "/v4.vf") && !strings.Contains(l, "/v4.TestVerif") {
				out[m[1]] = g
			}
		}
	}

	return out
}

// vfAwaitOrStuck waits for done; if it does not arrive it decides between "stuck" (the same goroutines parked in
// the same frames in two dumps 1.5 s apart) and "still moving" (inconclusive).
func vfAwaitOrStuck(done <-chan struct{}, first time.Duration) (ok bool, stuck bool, dump string) {
	select {
	case <-done:
		return true, false, ""
	case <-time.After(first):
	}
	d1 := vfStacks()
	select {
	case <-done:
		return true, false, ""
	case <-time.After(1500 * time.Millisecond):
	}
	d2 := vfStacks()
	select {
	case <-done:
		return true, false, ""
	default:
	}
	// compare, for every parked goroutine that is inside pion/ice code: its id, its wait state and its innermost frames
	pick := func(d string) string {
		var keep []string
		for _, g := range strings.Split(d, "\n\n") {
			m := vfGoroutineHdr.FindStringSubmatch(g)
			if m == nil || !strings.Contains(g, "pion/ice") || strings.HasPrefix(m[2], "running") || strings.HasPrefix(m[2], "runnable") {
				continue
			}
			state := strings.SplitN(m[2], ",", 2)[0]
			var frames []string
			for _, l := range strings.Split(g, "\n")[1:] {
				if strings.HasPrefix(l, "\t") || strings.HasPrefix(l, "created by") {
					continue
				}
				if i := strings.LastIndex(l, "("); i > 0 {
					l = l[:i]
				}
				frames = append(frames, l)
				if len(frames) == 5 {
					break
				}
			}
			if strings.Contains(strings.Join(frames, " "), "vfAwaitOrStuck") {
				continue
			}
			keep = append(keep, m[1]+" ["+state+"] "+strings.Join(frames, " < "))
		}
		sort.Strings(keep)

		return strings.Join(keep, "\n")
	}

	return false, pick(d1) == pick(d2), d2
}

type vfC08Plan struct {
	Position string // where in the lifetime the close is injected
	Kind     string // close / graceful / conn-close
	From     string // api / state-callback / candidate-callback / pair-callback
	Closers  int
	Fault    string // none / write-blocks / close-error
	Parked   []string
	Lite     bool
}

func vfC08Run(e *vfEnv, r *vfResult, idx int, plan vfC08Plan) { //nolint:cyclop,maintidx
	s := newVfSession(e, r, idx, "c08")
	s.mon.c03, s.mon.c04, s.mon.c06 = false, false, false
	if plan.Fault == "write-blocks" {
		plan.From = "api" // with the loop occupied by a blocked write no callback can be provoked: the close comes from the API goroutine
	}
	rng := s.rng
	before := vfAgentGoroutines()
	srv, err := newVfStunServer(s.sw, "10.255.0.1", 3478)
	if err != nil {
		r.inconclusive(1)

		return
	}
	uri, _ := stun.ParseURI("stun:10.255.0.1:3478")
	stunTO := 25 * time.Millisecond
	mkSide := func(name string, ip string) (*vfSide, error) {
		x, err := s.newSide(vfSideCfg{Name: name, IPs: []string{ip}, MaxBinding: 100})
		if err != nil {
			return nil, err
		}

		return x, nil
	}
	_ = mkSide
	// agent A is built here directly so that it also gathers srflx candidates (an outstanding STUN query keeps a cycle open)
	zero := time.Duration(0)
	mb := uint16(100)
	cfgA := &AgentConfig{
		Net: vfSimpleNet(s.sw, "A", "10.0.0.1", "10.0.1.1"), NetworkTypes: []NetworkType{NetworkTypeUDP4},
		CandidateTypes: []CandidateType{CandidateTypeHost, CandidateTypeServerReflexive}, Urls: []*stun.URI{uri}, STUNGatherTimeout: &stunTO,
		MulticastDNSMode: MulticastDNSModeDisabled, DisconnectedTimeout: &zero, FailedTimeout: &zero,
		HostAcceptanceMinWait: &zero, PrflxAcceptanceMinWait: &zero, SrflxAcceptanceMinWait: &zero, MaxBindingRequests: &mb, LoggerFactory: vfQuietLogger(),
	}
	// a relay candidate through a fake TURN client: its control socket and client must be gone after Close as well
	withRelay := rng.IntN(3) == 0
	var turnTally *vfTurnTally
	if withRelay {
		turi, _ := stun.ParseURI("turn:10.255.0.9:3478?transport=udp")
		turi.Username, turi.Password = "user", "pass"
		cfgA.Urls = append(cfgA.Urls, turi)
		cfgA.CandidateTypes = append(cfgA.CandidateTypes, CandidateTypeRelay)
		turnTally = &vfTurnTally{sw: s.sw, relayIP: "198.51.100.77"}
		if plan.Fault == "close-error" {
			s.sw.closeErr["relay-alloc"] = true
		}
	}
	a, err := NewAgent(cfgA)
	if err != nil {
		r.inconclusive(1)

		return
	}
	if turnTally != nil {
		a.turnClientFactory = turnTally.factory
	}
	A := &vfSide{cfg: vfSideCfg{Name: "A"}, name: "A", a: a, sess: s, pairAddr: map[uint64]string{}, told: map[string]bool{}, filtered: map[string]bool{}}
	s.A = A
	vfWantTicker(a)
	B, err := s.newSide(vfSideCfg{Name: "B", IPs: []string{"10.1.0.1"}, MaxBinding: 100})
	if err != nil {
		_ = a.Close()
		r.inconclusive(1)

		return
	}
	s.B = B
	defer func() {
		B.close()
		_ = a.Close()
		vfForgetTicker(a)
	}()
	// every gathering cycle's done channel (also of cycles superseded by a Restart: they wind down on their own time)
	var cyclesMu sync.Mutex
	var cycles []chan struct{}
	noteCycle := func() {
		var d chan struct{}
		if a.loop.Run(a.loop, func(context.Context) { d = a.gatherCandidateDone }) == nil && d != nil {
			cyclesMu.Lock()
			cycles = append(cycles, d)
			cyclesMu.Unlock()
		}
	}
	var closeOnce sync.Once
	closeResults := make(chan error, 16)
	var closersWG sync.WaitGroup
	var closedRet atomic.Int64 // set when the first closer returned
	doClose := func(kind string) {
		switch kind {
		case "graceful":
			closeResults <- a.GracefulClose()
		case "conn-close":
			if A.conn != nil {
				closeResults <- A.conn.Close()
			} else {
				closeResults <- a.Close()
			}
		default:
			closeResults <- a.Close()
		}
		closedRet.CompareAndSwap(0, time.Now().UnixNano())
	}
	launchClosers := func(fromCallback bool) {
		closeOnce.Do(func() {
			for c := 0; c < plan.Closers; c++ {
				kind := plan.Kind
				if c > 0 {
					kind = []string{"close", "graceful", "conn-close"}[rng.IntN(3)]
				}
				if fromCallback && kind == "graceful" && c == 0 {
					// GracefulClose from a callback is only safe in its own goroutine (documented): that is what we do
					closersWG.Add(1)
					go func() { defer closersWG.Done(); doClose("graceful") }()

					continue
				}
				if fromCallback && c == 0 {
					doClose(kind) // synchronously, inside the callback

					continue
				}
				closersWG.Add(1)
				go func(kind string) { defer closersWG.Done(); doClose(kind) }(kind)
			}
		})
	}
	var afterClosed atomic.Int32 // callbacks that started after a graceful close had returned
	var states []ConnectionState
	var smu sync.Mutex
	trigger := plan.From
	armed := atomic.Bool{}
	var handlersRunning atomic.Int32
	slowClosedHandler := rng.IntN(3) == 0 // the application's Closed handler takes a while
	_ = a.OnConnectionStateChange(func(cs ConnectionState) {
		handlersRunning.Add(1)
		defer handlersRunning.Add(-1)
		smu.Lock()
		states = append(states, cs)
		smu.Unlock()
		if trigger == "state-callback" && armed.Load() {
			launchClosers(true)
		}
		if cs == ConnectionStateClosed && slowClosedHandler {
			time.Sleep(15 * time.Millisecond)
		}
	})
	_ = a.OnCandidate(func(c Candidate) {
		A.mu.Lock()
		if c == nil {
			A.candNils++
		} else {
			A.cands = append(A.cands, c)
		}
		A.mu.Unlock()
		if trigger == "candidate-callback" && armed.Load() {
			launchClosers(true)
		}
	})
	_ = a.OnSelectedCandidatePairChange(func(Candidate, Candidate) {
		if trigger == "pair-callback" && armed.Load() {
			launchClosers(true)
		}
	})
	_ = afterClosed
	A.ufrag, A.pwd, _ = a.GetLocalUserCredentials()
	s.sw.addPwd("A.g0", A.pwd)
	// ---- parked callers
	type parked struct {
		name string
		done chan error
	}
	var parkedCalls []parked
	park := func(name string, f func() error) {
		p := parked{name: name, done: make(chan error, 1)}
		parkedCalls = append(parkedCalls, p)
		go func() { p.done <- f() }()
	}
	// ---- drive the lifetime up to the chosen position
	reached := false
	closeNow := func() {
		reached = true
		if plan.Fault == "write-blocks" {
			s.sw.mu.Lock()
			s.sw.blockWrite["A"] = true
			s.sw.mu.Unlock()
			// a tick whose STUN write blocks inside the task loop
			if A.tick != nil {
				go A.tick()
				time.Sleep(300 * time.Microsecond)
			}
		}
		if plan.Fault == "close-error" {
			s.sw.mu.Lock()
			s.sw.closeErr["A"] = true
			s.sw.mu.Unlock()
		}
		for _, pk := range plan.Parked {
			switch pk {
			case "read":
				if A.conn != nil {
					park("Conn.Read", func() error { _, err := A.conn.Read(make([]byte, 100)); return err })
				}
			case "await":
				// once a pair was selected AwaitConnect returns nil at once: parking it only makes sense before that
				if plan.Position != "connected" && plan.Position != "restarted" && !strings.HasPrefix(plan.Position, "regathering") {
					park("AwaitConnect", func() error { return a.AwaitConnect(context.Background()) })
				}
			}
		}
		if len(parkedCalls) > 0 {
			time.Sleep(200 * time.Microsecond)
		}
		if plan.From == "api" {
			launchClosers(false)
		} else {
			armed.Store(true)
			// provoke the callback: a state change / candidate / selection has to happen now
			switch plan.From {
			case "state-callback":
				_ = a.Restart("", "") // Checking (if started) ... and always: if nothing fires, fall back below
			case "candidate-callback":
				_ = a.Restart("", "")
				_ = a.GatherCandidates()
				noteCycle()
			case "pair-callback":
			}
			time.Sleep(2 * time.Millisecond)
			launchClosers(false) // fallback: if the callback did not fire at this position the close comes from the API goroutine
		}
	}
	func() {
		if plan.Position == "new" {
			closeNow()

			return
		}
		if err := a.GatherCandidates(); err != nil {
			return
		}
		noteCycle()
		var reqs []*vfDgram
		for dl := time.Now().Add(2 * time.Second); len(reqs) == 0 && time.Now().Before(dl); time.Sleep(20 * time.Microsecond) {
			reqs = append(reqs, srv.pump()...)
		}
		if plan.Position == "gathering" {
			closeNow() // the srflx query is outstanding

			return
		}
		for _, q := range reqs {
			_, _ = srv.reply(q, netip.MustParseAddrPort("198.51.100.9:6000"))
		}
		var done chan struct{}
		_ = a.loop.Run(a.loop, func(context.Context) { done = a.gatherCandidateDone })
		select {
		case <-done:
		case <-time.After(10 * time.Second):
			return
		}
		if plan.Position == "gathered" {
			closeNow()

			return
		}
		if err := B.gather(); err != nil {
			return
		}
		if plan.Position == "dialing" {
			// blocking Dial parked before the close
			park("Dial", func() error { _, err := a.Dial(context.Background(), B.ufrag, B.pwd); return err })
			time.Sleep(500 * time.Microsecond)
			closeNow()

			return
		}
		var err error
		if A.conn, err = a.StartDial(B.ufrag, B.pwd); err != nil {
			return
		}
		A.started, A.controlling = true, true
		if A.tick, err = vfAwaitTicker(a); err != nil {
			return
		}
		if err = A.awaitReaders(); err != nil {
			return
		}
		if err = B.start(false, A.ufrag, A.pwd); err != nil {
			return
		}
		for _, c := range A.localCands() {
			if cc, err := UnmarshalCandidate(c.Marshal()); err == nil && cc.Type() == CandidateTypeHost {
				B.addRemote(cc)
			}
		}
		for _, c := range B.localCands() {
			if cc, err := UnmarshalCandidate(c.Marshal()); err == nil {
				A.addRemote(cc)
			}
		}
		if plan.Position == "checking" {
			s.tickSide(A)
			s.deliverAll(true, rng.IntN(4))
			closeNow()

			return
		}
		var none []vfPendingSignal
		s.fairSuffix(&none, 8, func() bool { ok, _ := s.bothConnectedMirror(); return ok })
		if plan.Position == "connected" {
			// traffic in flight
			_, _ = A.conn.Write([]byte("\x90hello"))
			// and application data that reached the agent but was not read before the close: a later Read must not yield it
			readerParked := false
			for _, pk := range plan.Parked {
				if pk == "read" {
					readerParked = true // a parked reader would (rightly) consume it before the close
				}
			}
			if B.conn != nil && !readerParked {
				_, _ = B.conn.Write([]byte("\x90stale application payload"))
				s.deliverAll(true, 50)
				for _, dl := range s.sw.deliveredCopy() {
					if dl.To == "A" && strings.Contains(string(dl.Dgram.Data), "stale application payload") {
						r.count("c08_unread_payload_queued_before_close", 1)

						break
					}
				}
				_, _ = A.conn.Write([]byte("\x90hello again"))
			}
			closeNow()

			return
		}
		_ = a.Restart("", "")
		if plan.Position == "restarted" {
			closeNow()

			return
		}
		if plan.Fault == "write-blocks" {
			// the STUN query of the new cycle itself blocks in the socket write
			s.sw.mu.Lock()
			s.sw.blockWrite["A"] = true
			s.sw.mu.Unlock()
		}
		_ = a.GatherCandidates()
		noteCycle()
		if plan.Fault == "write-blocks" {
			for dl := time.Now().Add(2 * time.Second); time.Now().Before(dl); time.Sleep(50 * time.Microsecond) {
				blocked := false
				s.sw.mu.Lock()
				for _, c := range s.sw.all {
					if c.owner == "A" && c.blockedWrites.Load() > 0 {
						blocked = true
					}
				}
				s.sw.mu.Unlock()
				if blocked {
					break
				}
			}
		}
		if plan.Position == "regathering-then-restart" {
			// the cycle whose query is outstanding (or blocked in the socket write) is cancelled by another Restart first
			_ = a.Restart("", "")
		}
		closeNow() // "regathering"
	}()
	if !reached {
		r.inconclusive(1)
		r.note("c08: position %s not reached", plan.Position)

		return
	}
	// ---- the close must return
	cdone := make(chan struct{})
	go func() { closersWG.Wait(); close(cdone) }()
	ok, stuck, dump := vfAwaitOrStuck(cdone, 5*time.Second)
	r.eval(1)
	wit := map[string]any{"idx": idx, "plan": plan}
	if !ok {
		if stuck {
			wit["stacks"] = dump
			r.violation("close-stuck:"+plan.Position+":"+plan.Fault, fmt.Sprintf("Close (%s, from %s, %d closer(s), fault %s) injected at '%s' did not return: the involved goroutines are parked in the same frames in two dumps", plan.Kind, plan.From, plan.Closers, plan.Fault, plan.Position), wit)
		} else {
			r.inconclusive(1)
			r.note("close slow but moving at %s", plan.Position)
		}
		// unblock whatever hangs so that the process can go on
		s.sw.mu.Lock()
		s.sw.blockWrite["A"] = false
		socks := append([]*vfConn{}, s.sw.all...)
		s.sw.mu.Unlock()
		for _, c := range socks {
			if c.owner == "A" {
				_ = c.SetWriteDeadline(time.Now())
			}
		}

		return
	}
	closeAt := time.Now()
	// every closer returned nil or an error but returned; repeated close afterwards returns too
	for k := 0; k < 2; k++ {
		rd := make(chan struct{})
		var runningAtReturn int32
		go func() {
			_ = a.Close()
			_ = a.GracefulClose()
			runningAtReturn = handlersRunning.Load() // a GracefulClose that returned: no handler may be running, whoever closed first
			close(rd)
		}()
		if ok, stuck, dump := vfAwaitOrStuck(rd, 5*time.Second); !ok && stuck {
			wit["stacks"] = dump
			r.violation("repeated-close-stuck", fmt.Sprintf("a repeated Close/GracefulClose after '%s' did not return", plan.Position), wit)

			return
		} else if ok && runningAtReturn > 0 {
			r.violation("graceful-close-returned-while-handler-running", fmt.Sprintf("GracefulClose (called after the agent had already been closed by %s, position %s) returned while %d application handler(s) were still running", plan.Kind, plan.Position, runningAtReturn), wit)

			return
		}
	}
	// ---- parked callers are released with an error
	for _, p := range parkedCalls {
		select {
		case err := <-p.done:
			if err == nil {
				r.violation("parked-call-returned-nil:"+p.name, fmt.Sprintf("%s parked before Close returned nil after the agent was closed (position %s)", p.name, plan.Position), wit)
			}
			r.set("c08_parked_released", p.name)
		case <-time.After(5 * time.Second):
			d := vfStacks()
			wit["stacks"] = d
			r.violation("parked-call-still-blocked:"+p.name, fmt.Sprintf("%s was still blocked 5 s after Close returned (position %s)", p.name, plan.Position), wit)
		}
	}
	// ---- later API calls return promptly, with the closed error where the result depends on agent state, and without effect
	// a cycle superseded by Restart may still be winding down (its STUN query can go out after Close returned): wait
	// for every cycle, so that what is emitted from here on can only be a reaction to the calls below
	cyclesMu.Lock()
	cs := append([]chan struct{}{}, cycles...)
	cyclesMu.Unlock()
	woundDown := true
	for _, c := range cs {
		select {
		case <-c:
		case <-time.After(5 * time.Second):
			woundDown = false
		}
	}
	w0 := s.sw.wireLen()
	smu.Lock()
	nStates := len(states)
	smu.Unlock()
	type call struct {
		name     string
		f        func() error
		mustFail bool
	}
	calls := []call{
		{"GetLocalCandidates", func() error { _, err := a.GetLocalCandidates(); return err }, true},
		{"GetRemoteCandidates", func() error { _, err := a.GetRemoteCandidates(); return err }, true},
		{"GetGatheringState", func() error { _, err := a.GetGatheringState(); return err }, true},
		{"GetLocalUserCredentials", func() error { _, _, err := a.GetLocalUserCredentials(); return err }, true},
		{"GetRemoteUserCredentials", func() error { _, _, err := a.GetRemoteUserCredentials(); return err }, true},
		{"SetRemoteCredentials", func() error { return a.SetRemoteCredentials("abcd", "abcdefghijklmnopqrstuvwxyz012345") }, true},
		{"Restart", func() error { return a.Restart("", "") }, true},
		{"GatherCandidates", func() error { return a.GatherCandidates() }, true},
		{"UpdateOptions", func() error { return a.UpdateOptions(WithUrls(nil)) }, true},
		{"StartDial", func() error { _, err := a.StartDial("abcd", "abcdefghijklmnopqrstuvwxyz012345"); return err }, true},
		{"Accept", func() error {
			_, err := a.Accept(context.Background(), "abcd", "abcdefghijklmnopqrstuvwxyz012345")
			return err
		}, true},
		{"AwaitConnect", func() error { return a.AwaitConnect(context.Background()) }, plan.Position != "connected" && plan.Position != "restarted" && !strings.HasPrefix(plan.Position, "regathering")},
		{"AddRemoteCandidate", func() error {
			c, _ := NewCandidateHost(&CandidateHostConfig{Network: "udp", Address: "10.9.9.9", Port: 9, Component: 1})

			return a.AddRemoteCandidate(c)
		}, false},
		{"GetCandidatePairsStats", func() error { _ = a.GetCandidatePairsStats(); return nil }, false},
		{"GetSelectedCandidatePair", func() error { _, _ = a.GetSelectedCandidatePair(); return nil }, false},
	}
	if A.conn != nil {
		calls = append(calls,
			call{"Conn.Read", func() error { _, err := A.conn.Read(make([]byte, 2000)); return err }, true},
			call{"Conn.Write", func() error { _, err := A.conn.Write([]byte("\x90late")); return err }, true},
			call{"Conn.WriteToPair", func() error { _, err := A.conn.WriteToPair(1, []byte("\x90late")); return err }, true},
			call{"Conn.GetCandidatePairsInfo", func() error {
				if l := A.conn.GetCandidatePairsInfo(); len(l) != 0 {
					return nil
				}

				return errors.New("empty")
			}, true},
		)
	}
	for _, c := range calls {
		ch := make(chan error, 1)
		go func() { ch <- c.f() }()
		select {
		case err := <-ch:
			if c.mustFail && err == nil {
				r.violation("call-after-close-succeeds:"+c.name, fmt.Sprintf("%s after Close returned nil / a result (close injected at %s)", c.name, plan.Position), wit)
			}
			if c.mustFail && err != nil && !errors.Is(err, ErrClosed) {
				r.set("c08_post_close_errors", c.name+": "+err.Error())
			}
		case <-time.After(5 * time.Second):
			wit["stacks"] = vfStacks()
			r.violation("call-after-close-blocks:"+c.name, fmt.Sprintf("%s was still blocked 5 s after being called on a closed agent (close injected at %s)", c.name, plan.Position), wit)

			return
		}
	}
	time.Sleep(300 * time.Microsecond)
	emitted := 0
	for _, d := range s.sw.wireFrom(w0) {
		if d.Emitter == "A" {
			emitted++
		}
	}
	if emitted > 0 && woundDown {
		r.violation("effect-after-close:datagram", fmt.Sprintf("%d datagram(s) left the closed agent's sockets in reaction to API calls", emitted), wit)
	}
	// ---- final notified state is Closed, nothing after it
	_ = a.GracefulClose()
	smu.Lock()
	st := append([]ConnectionState{}, states...)
	smu.Unlock()
	if len(st) == 0 || st[len(st)-1] != ConnectionStateClosed {
		r.violation("final-state-not-closed", fmt.Sprintf("notified states %v do not end with Closed (close at %s, from %s)", st, plan.Position, plan.From), wit)
	}
	if len(st) > nStates+1 {
		r.violation("effect-after-close:callback", fmt.Sprintf("state callbacks fired in reaction to calls on a closed agent: %v", st[nStates:]), wit)
	}
	// ---- the TURN client the agent created (it runs goroutines of its own in the real implementation) was shut down
	if turnTally != nil {
		turnTally.mu.Lock()
		open := 0
		for _, c := range turnTally.clients {
			if c.closes.Load() == 0 {
				open++
			}
		}
		n := len(turnTally.clients)
		turnTally.mu.Unlock()
		if open > 0 {
			r.violation("turn-client-left-after-close", fmt.Sprintf("%d of %d TURN client(s) created by the agent were not closed by Close (close at %s, fault %s)", open, n, plan.Position, plan.Fault), wit)
		}
		r.count("c08_turn_clients", int64(n))
	}
	// ---- no goroutine started by the agent keeps running (cycles cancelled by an earlier Restart may sit in a STUN read until the gather timeout)
	B.close() // the peer goes away first, so that everything left over belongs to A
	var left map[string]string
	for dl := time.Now().Add(3 * time.Second); time.Now().Before(dl); time.Sleep(2 * time.Millisecond) {
		left = map[string]string{}
		for id, g := range vfAgentGoroutines() {
			if _, was := before[id]; !was {
				left[id] = g
			}
		}
		if len(left) == 0 {
			break
		}
	}
	if len(left) > 0 {
		var l []string
		for _, g := range left {
			l = append(l, g)
		}
		wit["goroutines"] = l
		r.violation("goroutine-left-after-close:"+plan.Position, fmt.Sprintf("%d goroutine(s) started by the agent are still alive 3 s after Close returned (close at %s, %v since close)", len(left), plan.Position, time.Since(closeAt).Round(time.Millisecond)), wit)
	}
	r.set("c08_positions", plan.Position)
	r.distinct(fmt.Sprintf("c08/%s/%s/%s/n%d/%s/%v", plan.Position, plan.Kind, plan.From, plan.Closers, plan.Fault, plan.Parked))
	if idx < 4 {
		r.sample(wit)
	}
}

// vfC08LateCandidate: directed schedule around the pre-stop abort of Close.  The abort of the started candidates' socket
// I/O is parked (SetDeadline on A's sockets waits on a gate); meanwhile a new local candidate is handed to the agent
// (as a gatherer would) on a socket whose writes block forever, and a check tick is requested.  Once Close has begun the
// task loop must not run those tasks any more; otherwise the late candidate's blocked write is never aborted and Close
// never returns.
func vfC08LateCandidate(e *vfEnv, r *vfResult, idx int) {
	s := newVfSession(e, r, idx, "c08late")
	s.mon.c03, s.mon.c04, s.mon.c06 = false, false, false
	defer s.closeAll()
	t := &vfTopo{AIPs: []string{"10.0.0.1"}, BIPs: []string{"10.1.0.1"}, NAT: map[string]string{}, SignalA: map[string]string{"10.0.0.1": "host"}, SignalB: map[string]string{"10.1.0.1": "host"}}
	if err := s.setupPair(t, vfSideCfg{MaxBinding: 1000, TieBreaker: 7}, vfSideCfg{MaxBinding: 1000, TieBreaker: 8}, true, false); err != nil {
		r.inconclusive(1)

		return
	}
	// the agent stays in Checking (nothing is delivered): a check round pings every pair, also those of a candidate added late
	pending, _ := s.signalList(t)
	for _, p := range pending {
		p.to.addRemote(p.cand)
	}
	s.dropAll()
	if s.broken != "" {
		r.inconclusive(1)

		return
	}
	a := s.A.a
	gate := make(chan struct{})
	s.sw.mu.Lock()
	s.sw.parkDLOwner, s.sw.parkDLGate = "A", gate
	s.sw.mu.Unlock()
	kind := []string{"close", "graceful"}[s.rng.IntN(2)]
	cdone := make(chan struct{})
	go func() {
		if kind == "graceful" {
			_ = a.GracefulClose()
		} else {
			_ = a.Close()
		}
		close(cdone)
	}()
	parked := false
	for dl := time.Now().Add(3 * time.Second); time.Now().Before(dl); time.Sleep(20 * time.Microsecond) {
		if s.sw.parkedDL.Load() > 0 {
			parked = true

			break
		}
	}
	// the late candidate, on a socket whose writes block
	n2 := vfSimpleNet(s.sw, "A-late", "10.0.77.1")
	conn2, err := n2.ListenUDP("udp", &net.UDPAddr{IP: net.ParseIP("10.0.77.1")})
	lateAdded := false
	if err == nil {
		s.sw.mu.Lock()
		s.sw.blockWrite["A-late"] = true
		s.sw.mu.Unlock()
		vc := conn2.(*vfConn) //nolint:forcetypeassert
		if hc, err := NewCandidateHost(&CandidateHostConfig{Network: "udp", Address: "10.0.77.1", Port: int(vc.local.Port()), Component: 1}); err == nil {
			res := make(chan error, 1)
			go func() { res <- a.addCandidate(context.Background(), hc, conn2) }()
			select {
			case err := <-res:
				lateAdded = err == nil
				if err != nil {
					_ = conn2.Close()
				}
			case <-time.After(2 * time.Second):
			}
		}
	}
	if lateAdded && s.A.tick != nil {
		go s.A.tick() // a check round: pings every pair, also those of the late candidate
		time.Sleep(500 * time.Microsecond)
	}
	s.sw.mu.Lock()
	s.sw.parkDLGate = nil
	s.sw.mu.Unlock()
	close(gate)
	ok, stuck, dump := vfAwaitOrStuck(cdone, 5*time.Second)
	r.eval(1)
	wit := map[string]any{"idx": idx, "kind": kind, "abort_parked": parked, "late_candidate_accepted_after_close_began": lateAdded}
	if !ok {
		if stuck {
			wit["stacks"] = dump
			r.violation("close-stuck:late-candidate-during-prestop", fmt.Sprintf("%s did not return: a candidate handed to the agent after Close had begun (accepted: %v) has a write blocked on its socket that nobody aborts", kind, lateAdded), wit)
		} else {
			r.inconclusive(1)
		}
		s.sw.mu.Lock()
		s.sw.blockWrite["A-late"] = false
		socks := append([]*vfConn{}, s.sw.all...)
		s.sw.mu.Unlock()
		for _, c := range socks {
			if c.owner == "A-late" {
				_ = c.SetWriteDeadline(time.Now())
				_ = c.Close()
			}
		}
		<-cdone

		return
	}
	s.A.closed = true
	r.distinct(fmt.Sprintf("c08late/%s/parked=%v/accepted=%v", kind, parked, lateAdded))
}

// vfC08CancelledCycle: Close after Restart has cancelled a gathering cycle that cannot wind down yet (its TURN
// allocation is held by the harness).  Close has to wait for that cycle like for any current one: while the harness
// holds the allocation, Close must not return.
func vfC08CancelledCycle(e *vfEnv, r *vfResult, idx int) {
	rng := e.rng(idx, "c08cancelled")
	sw := newVfSwitch()
	turi, _ := stun.ParseURI("turn:10.255.0.9:3478?transport=udp")
	turi.Username, turi.Password = "user", "pass"
	a, err := NewAgent(&AgentConfig{Net: vfSimpleNet(sw, "A", "10.0.0.1"), NetworkTypes: []NetworkType{NetworkTypeUDP4},
		CandidateTypes: []CandidateType{CandidateTypeHost, CandidateTypeRelay}, Urls: []*stun.URI{turi}, MulticastDNSMode: MulticastDNSModeDisabled, LoggerFactory: vfQuietLogger()})
	if err != nil {
		r.inconclusive(1)

		return
	}
	tally := &vfTurnTally{sw: sw, relayIP: "198.51.100.77", holdAlloc: make(chan struct{})}
	a.turnClientFactory = tally.factory
	_ = a.OnCandidate(func(Candidate) {})
	if err := a.GatherCandidates(); err != nil {
		_ = a.Close()
		r.inconclusive(1)

		return
	}
	for dl := time.Now().Add(3 * time.Second); tally.inAlloc.Load() == 0 && time.Now().Before(dl); time.Sleep(20 * time.Microsecond) {
	}
	if tally.inAlloc.Load() == 0 {
		close(tally.holdAlloc)
		_ = a.Close()
		r.inconclusive(1)

		return
	}
	restart := rng.IntN(4) != 0
	if restart {
		_ = a.Restart("", "") // cancels the cycle; it cannot finish while the allocation is held
	}
	kind := []string{"close", "graceful"}[rng.IntN(2)]
	cdone := make(chan struct{})
	go func() {
		if kind == "graceful" {
			_ = a.GracefulClose()
		} else {
			_ = a.Close()
		}
		close(cdone)
	}()
	returnedEarly := false
	select {
	case <-cdone:
		returnedEarly = tally.inAlloc.Load() > 0 // Close is back although the cycle's gatherer is provably still inside Allocate
	case <-time.After(30 * time.Millisecond):
	}
	close(tally.holdAlloc)
	r.eval(1)
	wit := map[string]any{"idx": idx, "kind": kind, "restart_before_close": restart}
	if returnedEarly {
		r.violation("close-returned-while-gather-cycle-running", fmt.Sprintf("history %d: %s returned while a gathering cycle (cancelled by Restart: %v) was still inside its TURN allocation", idx, kind, restart), wit)
	}
	if ok, stuck, dump := vfAwaitOrStuck(cdone, 5*time.Second); !ok && stuck {
		wit["stacks"] = dump
		r.violation("close-stuck:cancelled-cycle", fmt.Sprintf("history %d: %s did not return after the held allocation was released", idx, kind), wit)

		return
	}
	r.distinct(fmt.Sprintf("c08cancelled/%s/restart=%v", kind, restart))
}

// vfC08BlackholeDial: an active ICE-TCP candidate whose connect is pending (the remote passive candidate swallows
// SYNs: a loopback listener with a full accept queue) when the agent is closed.  The dial belongs to the agent: it must
// be gone soon after Close has returned, not when the kernel gives up two minutes later.
func vfC08BlackholeDial(e *vfEnv, r *vfResult, idx int) {
	fd, err := syscall.Socket(syscall.AF_INET, syscall.SOCK_STREAM, 0)
	if err != nil {
		r.inconclusive(1)

		return
	}
	defer syscall.Close(fd) //nolint:errcheck
	if err := syscall.Bind(fd, &syscall.SockaddrInet4{Addr: [4]byte{127, 0, 0, 1}}); err != nil {
		r.inconclusive(1)

		return
	}
	if err := syscall.Listen(fd, 0); err != nil {
		r.inconclusive(1)

		return
	}
	sa, err := syscall.Getsockname(fd)
	if err != nil {
		r.inconclusive(1)

		return
	}
	port := sa.(*syscall.SockaddrInet4).Port //nolint:forcetypeassert
	addr := fmt.Sprintf("127.0.0.1:%d", port)
	var fillers []net.Conn
	defer func() {
		for _, c := range fillers {
			_ = c.Close()
		}
	}()
	blackhole := false
	for i := 0; i < 4; i++ { // fill the accept queue until a connect hangs
		c, err := net.DialTimeout("tcp4", addr, 300*time.Millisecond)
		if err != nil {
			var ne net.Error
			blackhole = errors.As(err, &ne) && ne.Timeout()

			break
		}
		fillers = append(fillers, c)
	}
	if !blackhole {
		r.count("c08_blackhole_not_available", 1) // this kernel does not behave that way: nothing to observe

		return
	}
	a, err := NewAgent(&AgentConfig{CandidateTypes: []CandidateType{CandidateTypeHost}, NetworkTypes: []NetworkType{NetworkTypeUDP4, NetworkTypeTCP4}, IncludeLoopback: true,
		InterfaceFilter: func(n string) bool { return n == "lo" }, MulticastDNSMode: MulticastDNSModeDisabled, LoggerFactory: vfQuietLogger()})
	if err != nil {
		r.inconclusive(1)

		return
	}
	_ = a.OnCandidate(func(Candidate) {})
	rc, err := NewCandidateHost(&CandidateHostConfig{Network: "tcp", Address: "127.0.0.1", Port: port, Component: 1, TCPType: TCPTypePassive})
	if err != nil {
		_ = a.Close()
		r.inconclusive(1)

		return
	}
	_ = a.AddRemoteCandidate(rc)
	dialing := func() int {
		n := 0
		for _, g := range strings.Split(vfStacks(), "\n\n") {
			if strings.Contains(g, "newActiveTCPConn.func") && strings.Contains(g, "Dial") {
				n++
			}
		}

		return n
	}
	for dl := time.Now().Add(3 * time.Second); dialing() == 0 && time.Now().Before(dl); time.Sleep(200 * time.Microsecond) {
	}
	if dialing() == 0 {
		_ = a.Close()
		r.inconclusive(1)

		return
	}
	kind := []string{"close", "graceful"}[e.rng(idx, "blackhole").IntN(2)]
	if kind == "graceful" {
		_ = a.GracefulClose()
	} else {
		_ = a.Close()
	}
	r.eval(1)
	left := 0
	for dl := time.Now().Add(5 * time.Second); time.Now().Before(dl); time.Sleep(2 * time.Millisecond) {
		if left = dialing(); left == 0 {
			break
		}
	}
	if left > 0 {
		r.violation("active-tcp-dial-left-after-close", fmt.Sprintf("history %d: %d active ICE-TCP dial goroutine(s) are still running 5 s after %s returned (the peer's passive candidate does not answer)", idx, left, kind), map[string]any{"idx": idx, "kind": kind})
	}
	r.count("c08_blackhole_dials_checked", 1)
	r.distinct("c08blackhole/" + kind)
}

// vfC08StalledTURNS: Close while the relay gatherer is in the middle of a TLS (turns over TCP) or DTLS (turns over UDP)
// handshake with a server that accepted the connection and then says nothing.  The handshake belongs to the gathering
// cycle: Close cancels the cycle and waits for it, so it returns only if the handshake gives up with it.
func vfC08StalledTURNS(e *vfEnv, r *vfResult, idx int) { //nolint:cyclop
	rng := e.rng(idx, "stalledturns")
	proto := []string{"tcp", "udp"}[rng.IntN(2)]
	port := 0
	var mu sync.Mutex
	var accepted []net.Conn
	if proto == "tcp" {
		ln, err := net.Listen("tcp4", "127.0.0.1:0")
		if err != nil {
			r.inconclusive(1)

			return
		}
		defer ln.Close() //nolint:errcheck
		port = ln.Addr().(*net.TCPAddr).Port //nolint:forcetypeassert
		go func() {
			for {
				c, err := ln.Accept()
				if err != nil {
					return
				}
				mu.Lock()
				accepted = append(accepted, c) // kept open, never answered
				mu.Unlock()
			}
		}()
	} else {
		pc, err := net.ListenPacket("udp4", "127.0.0.1:0")
		if err != nil {
			r.inconclusive(1)

			return
		}
		defer pc.Close() //nolint:errcheck
		port = pc.LocalAddr().(*net.UDPAddr).Port //nolint:forcetypeassert
	}
	releaseServer := func() {
		mu.Lock()
		for _, c := range accepted {
			_ = c.Close()
		}
		accepted = nil
		mu.Unlock()
	}
	defer releaseServer()
	uri, err := stun.ParseURI(fmt.Sprintf("turns:127.0.0.1:%d?transport=%s", port, proto))
	if err != nil {
		r.inconclusive(1)

		return
	}
	uri.Username, uri.Password = "user", "pass"
	a, err := NewAgent(&AgentConfig{CandidateTypes: []CandidateType{CandidateTypeRelay}, NetworkTypes: []NetworkType{NetworkTypeUDP4, NetworkTypeTCP4},
		Urls: []*stun.URI{uri}, InsecureSkipVerify: true, IncludeLoopback: true, InterfaceFilter: func(n string) bool { return n == "lo" },
		MulticastDNSMode: MulticastDNSModeDisabled, LoggerFactory: vfQuietLogger()})
	if err != nil {
		r.inconclusive(1)
		r.note("stalled turns: %v", err)

		return
	}
	_ = a.OnCandidate(func(Candidate) {})
	if err := a.GatherCandidates(); err != nil {
		_ = a.Close()
		r.inconclusive(1)

		return
	}
	inHandshake := func() int {
		n := 0
		for _, g := range strings.Split(vfStacks(), "\n\n") {
			if strings.Contains(g, "gatherCandidatesRelay") && strings.Contains(g, "andshake") {
				n++
			}
		}

		return n
	}
	for dl := time.Now().Add(3 * time.Second); inHandshake() == 0 && time.Now().Before(dl); time.Sleep(300 * time.Microsecond) {
	}
	if inHandshake() == 0 {
		_ = a.Close()
		r.count("c08_stalled_turns_handshake_not_reached", 1)

		return
	}
	kind := []string{"close", "graceful"}[rng.IntN(2)]
	done := make(chan struct{})
	go func() {
		defer close(done)
		if kind == "graceful" {
			_ = a.GracefulClose()
		} else {
			_ = a.Close()
		}
	}()
	r.eval(1)
	ok, stuck, dump := vfAwaitOrStuck(done, 3*time.Second)
	switch {
	case ok:
		r.count("c08_stalled_turns_closes_checked", 1)
	case stuck:
		r.violation("close-stuck:turns-handshake-pending:"+proto, fmt.Sprintf("history %d: %s did not return while the relay gatherer was in a TLS/DTLS handshake (turns over %s) with a server that never answers: the involved goroutines are parked in the same frames in two dumps", idx, kind, proto),
			map[string]any{"idx": idx, "kind": kind, "transport": proto, "stacks": dump})
	default:
		r.inconclusive(1)
	}
	// let the handshake fail so that nothing outlives this history
	releaseServer()
	select {
	case <-done:
	case <-time.After(20 * time.Second):
	}
	r.distinct("c08stalledturns/" + proto + "/" + kind)
}

// vfC08MuxWriteBlocked: an agent whose host candidate lives on a shared UDP mux socket is closed while one of its
// connectivity checks is blocked inside the socket write (full send buffer).  Close has to get that write aborted; the
// shared socket offers net.PacketConn I/O only, or also netip.AddrPort I/O as a real *net.UDPConn does.
func vfC08MuxWriteBlocked(e *vfEnv, r *vfResult, idx int) {
	rng := e.rng(idx, "muxwriteblocked")
	sw := newVfSwitch()
	sock := newVfMuxSock("10.0.0.9:7000")
	var under net.PacketConn = sock
	addrPort := rng.IntN(2) == 0
	if addrPort {
		under = vfMuxSockAP{sock}
	}
	mux := NewUDPMuxDefault(UDPMuxParams{UDPConn: under, Logger: vfQuietLogger().NewLogger("ice"), Net: vfSimpleNet(sw, "mux", "10.0.0.9")})
	defer mux.Close() //nolint:errcheck
	a, err := NewAgent(&AgentConfig{UDPMux: mux, CandidateTypes: []CandidateType{CandidateTypeHost}, NetworkTypes: []NetworkType{NetworkTypeUDP4},
		Net: vfSimpleNet(sw, "A", "10.0.0.9"), MulticastDNSMode: MulticastDNSModeDisabled, LoggerFactory: vfQuietLogger()})
	if err != nil {
		r.inconclusive(1)
		r.note("mux write blocked: %v", err)

		return
	}
	gathered := make(chan struct{})
	var once sync.Once
	_ = a.OnCandidate(func(c Candidate) {
		if c == nil {
			once.Do(func() { close(gathered) })
		}
	})
	if err := a.GatherCandidates(); err != nil {
		_ = a.Close()
		r.inconclusive(1)

		return
	}
	select {
	case <-gathered:
	case <-time.After(5 * time.Second):
		_ = a.Close()
		r.inconclusive(1)

		return
	}
	if l, _ := a.GetLocalCandidates(); len(l) == 0 {
		_ = a.Close()
		r.count("c08_mux_write_blocked_no_candidate", 1)

		return
	}
	rc, err := NewCandidateHost(&CandidateHostConfig{Network: "udp", Address: "10.9.0.1", Port: 4000, Component: 1})
	if err != nil {
		_ = a.Close()
		r.inconclusive(1)

		return
	}
	sock.setBlocking(true)
	_ = a.AddRemoteCandidate(rc)
	if err := a.startConnectivityChecks(rng.IntN(2) == 0, "peerufrag", "peerpasswordpeerpassword0000"); err != nil {
		sock.setBlocking(false)
		_ = a.Close()
		r.inconclusive(1)

		return
	}
	for dl := time.Now().Add(5 * time.Second); sock.blockedW.Load() == 0 && time.Now().Before(dl); time.Sleep(200 * time.Microsecond) {
	}
	if sock.blockedW.Load() == 0 {
		sock.setBlocking(false)
		_ = a.Close()
		r.count("c08_mux_write_blocked_not_reached", 1)

		return
	}
	kind := []string{"close", "graceful"}[rng.IntN(2)]
	done := make(chan struct{})
	go func() {
		defer close(done)
		if kind == "graceful" {
			_ = a.GracefulClose()
		} else {
			_ = a.Close()
		}
	}()
	r.eval(1)
	ok, stuck, dump := vfAwaitOrStuck(done, 3*time.Second)
	switch {
	case ok:
		r.count("c08_mux_write_blocked_closes_checked", 1)
	case stuck:
		r.violation("close-stuck:udpmux-write-blocked", fmt.Sprintf("history %d: %s did not return while a connectivity check was blocked in the write of the shared UDP mux socket (socket offers AddrPort I/O: %v): the involved goroutines are parked in the same frames in two dumps", idx, kind, addrPort),
			map[string]any{"idx": idx, "kind": kind, "addrport_socket": addrPort, "stacks": dump})
	default:
		r.inconclusive(1)
	}
	sock.setBlocking(false) // the socket accepts data again: whatever was stuck moves on
	select {
	case <-done:
	case <-time.After(20 * time.Second):
	}
	r.distinct(fmt.Sprintf("c08muxwriteblocked/ap=%v/%s", addrPort, kind))
}

// vfC08TCPBacklog: a passive ICE-TCP candidate (TCP mux with a small receive queue) whose peer has already connected and
// sent more packets than the queue holds while nobody reads them (the agent has gathered but was not started yet; or the
// queue is simply behind).  The connection's reader is parked handing a packet to the full queue when Close comes.
func vfC08TCPBacklog(e *vfEnv, r *vfResult, idx int) { //nolint:cyclop
	rng := e.rng(idx, "tcpbacklog")
	ln, err := net.Listen("tcp4", "127.0.0.1:0")
	if err != nil {
		r.inconclusive(1)

		return
	}
	tmux := NewTCPMuxDefault(TCPMuxParams{Listener: ln, Logger: vfQuietLogger().NewLogger("ice"), ReadBufferSize: rng.IntN(3)})
	defer func() { // bounded: on a tree where the reader never lets go the mux cannot finish closing either
		ch := make(chan struct{})
		go func() { _ = tmux.Close(); close(ch) }()
		select {
		case <-ch:
		case <-time.After(5 * time.Second):
		}
	}()
	a, err := NewAgent(&AgentConfig{TCPMux: tmux, CandidateTypes: []CandidateType{CandidateTypeHost}, NetworkTypes: []NetworkType{NetworkTypeTCP4},
		IncludeLoopback: true, InterfaceFilter: func(n string) bool { return n == "lo" }, MulticastDNSMode: MulticastDNSModeDisabled, LoggerFactory: vfQuietLogger()})
	if err != nil {
		r.inconclusive(1)
		r.note("tcp backlog: %v", err)

		return
	}
	gathered := make(chan struct{})
	var once sync.Once
	_ = a.OnCandidate(func(c Candidate) {
		if c == nil {
			once.Do(func() { close(gathered) })
		}
	})
	if err := a.GatherCandidates(); err != nil {
		_ = a.Close()
		r.inconclusive(1)

		return
	}
	select {
	case <-gathered:
	case <-time.After(5 * time.Second):
		_ = a.Close()
		r.inconclusive(1)

		return
	}
	if l, _ := a.GetLocalCandidates(); len(l) == 0 {
		_ = a.Close()
		r.count("c08_tcp_backlog_no_candidate", 1)

		return
	}
	ufrag, _, _ := a.GetLocalUserCredentials()
	user := ufrag + ":remote"
	c, err := net.DialTimeout("tcp4", ln.Addr().String(), 2*time.Second)
	if err != nil {
		_ = a.Close()
		r.inconclusive(1)

		return
	}
	defer c.Close() //nolint:errcheck
	_, _ = c.Write(vfFrame(vfStunWithUser(rng, &user)))
	for k := 0; k < 8+rng.IntN(8); k++ {
		_, _ = c.Write(vfFrame([]byte(fmt.Sprintf("\x90backlog-%d-%d", idx, k))))
	}
	parked := func() int {
		n := 0
		for _, g := range strings.Split(vfStacks(), "\n\n") {
			if strings.Contains(g, "(*tcpPacketConn).handleRecv") || (strings.Contains(g, "(*tcpPacketConn).AddConn.func1") && strings.Contains(g, "[select")) {
				n++
			}
		}

		return n
	}
	for dl := time.Now().Add(3 * time.Second); parked() == 0 && time.Now().Before(dl); time.Sleep(300 * time.Microsecond) {
	}
	if parked() == 0 {
		_ = a.Close()
		r.count("c08_tcp_backlog_not_reached", 1) // somebody is draining the queue: nothing to observe here

		return
	}
	kind := []string{"close", "graceful"}[rng.IntN(2)]
	done := make(chan struct{})
	go func() {
		defer close(done)
		if kind == "graceful" {
			_ = a.GracefulClose()
		} else {
			_ = a.Close()
		}
	}()
	r.eval(1)
	ok, stuck, dump := vfAwaitOrStuck(done, 3*time.Second)
	switch {
	case ok:
		r.count("c08_tcp_backlog_closes_checked", 1)
	case stuck:
		r.violation("close-stuck:tcp-receive-queue-full", fmt.Sprintf("history %d: %s did not return while the reader of an inbound ICE-TCP connection was handing a packet to the full receive queue of its candidate: the involved goroutines are parked in the same frames in two dumps", idx, kind),
			map[string]any{"idx": idx, "kind": kind, "stacks": dump})
	default:
		r.inconclusive(1)
	}
	_ = c.Close()
	select {
	case <-done:
	case <-time.After(5 * time.Second):
	}
	r.distinct("c08tcpbacklog/" + kind)
}

func TestVerifC08(t *testing.T) {
	vfRun(t, "C08", func(e *vfEnv, r *vfResult) {
		positions := []string{"new", "gathering", "gathered", "dialing", "checking", "connected", "restarted", "regathering", "regathering-then-restart"}
		kinds := []string{"close", "graceful", "conn-close"}
		froms := []string{"api", "api", "state-callback", "candidate-callback", "pair-callback"}
		faults := []string{"none", "none", "write-blocks", "close-error"}
		// every position x close kind once (enumerated), the other dimensions sampled
		var plans []vfC08Plan
		rng := e.rng(0, "c08plans")
		for _, p := range positions {
			for _, k := range kinds {
				for _, f := range []string{"api", "callback"} {
					pl := vfC08Plan{Position: p, Kind: k, From: "api", Closers: 1 + rng.IntN(4), Fault: faults[rng.IntN(len(faults))]}
					if f == "callback" {
						pl.From = froms[2+rng.IntN(3)]
					}
					if rng.IntN(2) == 0 {
						pl.Parked = []string{"read", "await"}[:1+rng.IntN(2)]
					}
					plans = append(plans, pl)
				}
			}
		}
		extra := e.n(600, 15000) * e.nshards
		for i := 0; i < extra; i++ {
			pl := vfC08Plan{Position: positions[rng.IntN(len(positions))], Kind: kinds[rng.IntN(3)], From: froms[rng.IntN(len(froms))], Closers: 1 + rng.IntN(4), Fault: faults[rng.IntN(len(faults))]}
			if rng.IntN(2) == 0 {
				pl.Parked = []string{"read", "await"}[:1+rng.IntN(2)]
			}
			plans = append(plans, pl)
		}
		for i, pl := range plans {
			if i%e.nshards != e.shard || (e.only >= 0 && i != e.only) {
				continue
			}
			vfC08Run(e, r, i, pl)
		}
		for i := 0; i < e.n(40, 1500); i++ {
			vfC08LateCandidate(e, r, 5000000+i)
		}
		for i := 0; i < e.n(3, 40); i++ {
			vfC08StalledTURNS(e, r, 8000000+i)
		}
		for i := 0; i < e.n(6, 200); i++ {
			vfC08MuxWriteBlocked(e, r, 9000000+i)
		}
		for i := 0; i < e.n(6, 200); i++ {
			vfC08TCPBacklog(e, r, 9500000+i)
		}
		for i := 0; i < e.n(60, 2400); i++ {
			vfC08CancelledCycle(e, r, 6000000+i)
		}
		for i := 0; i < e.n(4, 160); i++ {
			vfC08BlackholeDial(e, r, 7000000+i)
		}
	})
}
