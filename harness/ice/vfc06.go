//go:build verif

package ice

// C06 workload: C01-style histories plus the situations the bookkeeping clauses are
// about: duplicate trickle, peer-reflexive-then-signalled and signalled-then-peer-
// reflexive orders, remote IP filters (signalled and peer-reflexive), coordinated
// Restart at a random step, Failed through millisecond timeouts, and Restart racing
// a gather cycle (with seeded yields at hook H2). The C06 monitor runs after every step.

import (
	"context"
	"fmt"
	"math/rand/v2"
	"net"
	"net/netip"
	"sync"
	"sync/atomic"
	"testing"
	"time"

	"github.com/pion/ice/v4/internal/verifhook"
)

// ---------------------------------------------------------------- seeded yields (hook H2)

type vfYieldPolicy struct {
	park   map[string]chan struct{} // directed: a goroutine reaching this site parks until the channel is closed (bounded)
	parked map[string]*atomic.Int32
	mu     sync.Mutex
	rng    *rand.Rand
	sites  map[string]int // site -> per-mille probability of a pause
	maxUs  int
	hits   map[string]int64
	n      atomic.Int64
}

var vfYieldCur atomic.Pointer[vfYieldPolicy] //nolint:gochecknoglobals

func vfSetYield(p *vfYieldPolicy) {
	vfYieldCur.Store(p)
	if p == nil {
		verifhook.SetYield(nil)

		return
	}
	verifhook.SetYield(func(site string) {
		cur := vfYieldCur.Load()
		if cur == nil {
			return
		}
		if ch := cur.park[site]; ch != nil {
			if n := cur.parked[site]; n != nil {
				n.Add(1)
			}
			select {
			case <-ch:
			case <-time.After(3 * time.Second):
			}
		}
		cur.mu.Lock()
		cur.hits[site]++
		pm, ok := cur.sites[site]
		if !ok {
			pm = cur.sites["*"]
		}
		pause := 0
		if pm > 0 && cur.rng.IntN(1000) < pm {
			pause = 1 + cur.rng.IntN(cur.maxUs)
		}
		cur.mu.Unlock()
		if pause > 0 {
			cur.n.Add(1)
			time.Sleep(time.Duration(pause) * time.Microsecond)
		}
	})
}

func newVfYieldPolicy(rng *rand.Rand, sites map[string]int, maxUs int) *vfYieldPolicy {
	return &vfYieldPolicy{rng: rng, sites: sites, maxUs: maxUs, hits: map[string]int64{}}
}

// ---------------------------------------------------------------- steps with their own monitors

// addRemoteStep adds a remote candidate and checks the supersession clause: pairs whose
// remote was a peer-reflexive candidate with the same transport address keep id, state,
// priority, statistics and selection.
func (s *vfSession) addRemoteStep(x *vfSide, c Candidate, desc string) {
	if s.broken != "" || x.closed {
		return
	}
	before := x.snapshot()
	s.step("addremote", x.name, 0, desc)
	x.addRemote(c)
	s.afterStep()
	after := x.snapshot()
	if before.Err != nil || after.Err != nil {
		return
	}
	addr := vfCandAddr(c)
	wasPrflx := false
	for _, rc := range before.Remotes {
		if rc.Addr == addr && rc.Type == CandidateTypePeerReflexive {
			wasPrflx = true
		}
	}
	if !wasPrflx || c.Type() == CandidateTypePeerReflexive {
		return
	}
	if x.cfg.RemoteFilter != nil && !x.cfg.RemoteFilter(vfCandAP(c).Addr()) {
		return
	}
	s.r.count("c06_supersessions", 1)
	am := map[string]vfPairSnap{}
	for _, p := range after.Pairs {
		am[p.Local+"|"+p.Remote] = p
	}
	for _, p := range before.Pairs {
		if p.Remote != addr {
			continue
		}
		q, ok := am[p.Local+"|"+p.Remote]
		if !ok {
			s.viol("C06", "supersession-pair-lost", fmt.Sprintf("%s: pair %s|%s disappeared when the signalled candidate replaced the peer-reflexive one", x.name, p.Local, p.Remote), nil)

			continue
		}
		p.RType, q.RType = 0, 0
		p.RPrio, q.RPrio = 0, 0
		p.PrioOverride, q.PrioOverride = false, false // how the priority is kept is not part of the contract; Prio itself is compared
		if p != q {
			s.viol("C06", "supersession-pair-changed", fmt.Sprintf("%s: pair %s|%s changed across supersession: before %+v after %+v", x.name, p.Local, p.Remote, p, q), nil)
		}
	}
	if before.Selected != after.Selected {
		s.viol("C06", "supersession-selection-changed", fmt.Sprintf("%s: selection %q -> %q across supersession", x.name, before.Selected, after.Selected), nil)
	}
	n := 0
	for _, rc := range after.Remotes {
		if rc.Addr == addr {
			n++
			if rc.Type == CandidateTypePeerReflexive {
				s.viol("C06", "supersession-prflx-kept", fmt.Sprintf("%s: peer-reflexive %s still listed after the signalled candidate arrived", x.name, addr), nil)
			}
		}
	}
	if n != 1 {
		s.viol("C06", "supersession-remote-count", fmt.Sprintf("%s: %d remote candidates with address %s after supersession", x.name, n, addr), nil)
	}
}

// restartStep restarts x, and checks that nothing of the previous generation is left.
func (s *vfSession) restartStep(x *vfSide) {
	if s.broken != "" || x.closed {
		return
	}
	s.step("restart", x.name, 0, "")
	x.restartedAt = s.stepN
	if err := x.a.Restart("", ""); err != nil {
		s.r.note("restart failed: %v", err)

		return
	}
	x.gen++
	x.ufrag, x.pwd, _ = x.a.GetLocalUserCredentials()
	s.sw.addPwd(fmt.Sprintf("%s.g%d", x.name, x.gen), x.pwd)
	x.pairAddr, x.maxPairID, x.told, x.prevSel = map[uint64]string{}, 0, map[string]bool{}, ""
	x.ticks = 0
	x.mu.Lock()
	x.cands = nil
	x.mu.Unlock()
	sn := x.snapshot()
	if sn.Err == nil && (len(sn.Pairs) > 0 || sn.ByIDCount > 0 || len(sn.Locals) > 0 || len(sn.Remotes) > 0 || sn.Selected != "" || len(sn.Pending) > 0) {
		s.viol("C06", "restart-residue", fmt.Sprintf("%s: after Restart pairs=%d idindex=%d locals=%d remotes=%d pending=%d selected=%q", x.name, len(sn.Pairs), sn.ByIDCount, len(sn.Locals), len(sn.Remotes), len(sn.Pending), sn.Selected), nil)
	}
	if sn.Err == nil && sn.Gathering != GatheringStateNew {
		s.viol("C18", "restart-gathering-state", fmt.Sprintf("%s: gathering state %s right after Restart", x.name, sn.Gathering), nil)
	}
	s.afterStep()
}

// coordinatedRestart: both sides restart (in random order, with steps in between), regather, exchange credentials and candidates.
func (s *vfSession) coordinatedRestart(t *vfTopo, between int) ([]vfPendingSignal, error) {
	first, second := s.A, s.B
	if s.rng.IntN(2) == 0 {
		first, second = s.B, s.A
	}
	s.restartStep(first)
	budget := map[*vfSide]int{s.A: 2, s.B: 2}
	var none []vfPendingSignal
	s.chaos(between, budget, &none, true)
	s.restartStep(second)
	s.dropAll() // traffic of the ended generation may still be in flight: sometimes keep it
	for _, x := range s.sides() {
		if err := x.gather(); err != nil {
			return nil, err
		}
	}
	if s.afterRegather != nil {
		s.afterRegather()
	}
	if err := s.A.a.SetRemoteCredentials(s.B.ufrag, s.B.pwd); err != nil {
		return nil, err
	}
	if err := s.B.a.SetRemoteCredentials(s.A.ufrag, s.A.pwd); err != nil {
		return nil, err
	}

	return s.signalList(t)
}

func vfC06Run(e *vfEnv, r *vfResult, idx int) { //nolint:cyclop
	s := newVfSession(e, r, idx, "c06")
	defer s.closeAll()
	t := vfGenTopo(s)
	variant := []string{"plain", "filter", "restart", "restart", "failed", "prflx-first"}[s.rng.IntN(6)]
	s.desc["topology"], s.desc["variant"] = t, variant
	ca, cb := vfSideCfg{MaxBinding: 1000, TieBreaker: 11}, vfSideCfg{MaxBinding: 1000, TieBreaker: 22}
	ca.TCPPassive, cb.TCPPassive = s.rng.IntN(3) == 0, s.rng.IntN(3) == 0 // ICE-TCP passive local candidates (simulated TCP mux)
	ca.TCPActive, cb.TCPActive = s.rng.IntN(4) == 0, s.rng.IntN(4) == 0     // or active ICE-TCP towards passive remotes
	s.mappedSignalling = s.rng.IntN(3) == 0
	s.desc["ipv4_mapped_signalling"] = s.mappedSignalling
	s.mdnsSignalling = !s.mappedSignalling && s.rng.IntN(3) == 0
	s.desc["mdns_signalling"] = s.mdnsSignalling
	if variant == "filter" {
		// each side rejects a random subset of the other's addresses (as seen on the wire)
		mk := func(ips []string) func(netip.Addr) bool {
			rej := map[netip.Addr]bool{}
			for _, ip := range ips {
				if s.rng.IntN(2) == 0 {
					a := netip.MustParseAddr(ip)
					if p, ok := t.NAT[ip]; ok {
						a = netip.MustParseAddr(p)
					}
					rej[a] = true
				}
			}

			return func(a netip.Addr) bool { return !rej[a] }
		}
		ca.RemoteFilter, cb.RemoteFilter = mk(t.BIPs), mk(t.AIPs)
	}
	if variant == "failed" {
		ca.DiscTimeout, ca.FailTimeout = 2*time.Millisecond, 2*time.Millisecond
		cb.DiscTimeout, cb.FailTimeout = 2*time.Millisecond, 2*time.Millisecond
		t.Unreach = nil
		t.clearNAT()
	}
	if variant == "prflx-first" {
		// nothing is signalled to A at first: A learns B's addresses as peer-reflexive, the signalled ones arrive later
		for ip := range t.SignalA {
			t.SignalA[ip] = "host"
		}
		t.clearNAT()
	}
	if err := s.setupPair(t, ca, cb, true, false); err != nil {
		r.inconclusive(1)
		r.note("setup: %v", err)

		return
	}
	pending, err := s.signalList(t)
	if err != nil {
		r.inconclusive(1)

		return
	}
	// ICE-TCP candidates of the peer: an active one (must never be listed) and a passive one (listed, paired only with
	// TCP local candidates)
	for i, x := range s.sides() {
		if s.rng.IntN(2) == 0 {
			ip := fmt.Sprintf("10.%d.201.1", 60+i)
			if tc, err := NewCandidateHost(&CandidateHostConfig{Network: "tcp", Address: ip, Port: 9, Component: 1, TCPType: TCPTypeActive}); err == nil {
				pending = append(pending, vfPendingSignal{to: x, cand: tc, desc: fmt.Sprintf("%s told TCP active candidate %s:9", x.name, ip)})
			}
			if tc, err := NewCandidateHost(&CandidateHostConfig{Network: "tcp", Address: ip, Port: 4000 + i, Component: 1, TCPType: TCPTypePassive}); err == nil {
				pending = append(pending, vfPendingSignal{to: x, cand: tc, desc: fmt.Sprintf("%s told TCP passive candidate %s", x.name, ip)})
				if s.rng.IntN(2) == 0 {
					// trickled twice (a signalling layer that repeats itself): the second copy changes nothing
					if tc2, err := NewCandidateHost(&CandidateHostConfig{Network: "tcp", Address: ip, Port: 4000 + i, Component: 1, TCPType: TCPTypePassive}); err == nil {
						pending = append(pending, vfPendingSignal{to: x, cand: tc2, desc: fmt.Sprintf("%s told TCP passive candidate %s again", x.name, ip)})
					}
				}
			}
			s.r.count("c06_sessions_with_tcp_remote_candidates", 1)
		}
	}
	if variant == "prflx-first" {
		// B is told everything now; what A is to be told is held back
		var held []vfPendingSignal
		for _, p := range pending {
			if p.to == s.B {
				s.addRemoteStep(p.to, p.cand, p.desc)
			} else {
				held = append(held, p)
			}
		}
		pending = held
		budget := map[*vfSide]int{s.A: 6, s.B: 6}
		var none []vfPendingSignal
		s.chaos(20+s.rng.IntN(60), budget, &none, false)
	}
	budget := map[*vfSide]int{s.A: 30, s.B: 30}
	s.chaosC06(20+s.rng.IntN(120), budget, &pending)
	s.fairSuffixC06(&pending, 6)
	switch variant {
	case "restart":
		np, err := s.coordinatedRestart(t, s.rng.IntN(10))
		if err != nil {
			r.inconclusive(1)
			r.note("restart: %v", err)

			return
		}
		pending = np
		s.chaosC06(20+s.rng.IntN(80), map[*vfSide]int{s.A: 20, s.B: 20}, &pending)
		s.fairSuffixC06(&pending, 6)
	case "failed":
		// silence beyond disconnected+failed timeouts, then ticks: Disconnected, then Failed with everything released
		time.Sleep(6 * time.Millisecond)
		s.dropAll()
		for i := 0; i < 3; i++ {
			s.tickSide(s.A)
			s.tickSide(s.B)
			s.dropAll()
		}
		for _, x := range s.sides() {
			sn := x.snapshot()
			if sn.Err == nil {
				s.r.set("c06_final_states", sn.State.String())
			}
		}
		// the generation continues after Failed (same credentials): candidates that arrive later (continual
		// gathering adds them through the same internal path) are paired again; ids must not be reused
		for _, x := range s.sides() {
			sn := x.snapshot()
			if sn.Err != nil || sn.State != ConnectionStateFailed {
				continue
			}
			ip := fmt.Sprintf("10.%d.77.1", map[string]int{"A": 0, "B": 1}[x.name])
			n := vfSimpleNet(s.sw, x.name, ip)
			conn, err := n.ListenUDP("udp", &net.UDPAddr{IP: net.ParseIP(ip)})
			if err != nil {
				continue
			}
			vc := conn.(*vfConn) //nolint:forcetypeassert
			hc, err := NewCandidateHost(&CandidateHostConfig{Network: "udp", Address: ip, Port: int(vc.local.Port()), Component: 1})
			if err != nil {
				continue
			}
			s.step("late-local-candidate", x.name, 0, ip)
			if err := x.a.addCandidate(context.Background(), hc, conn); err != nil {
				_ = conn.Close()

				continue
			}
			_ = x.awaitReaders()
			for _, pc := range s.other(x).localCandsAll {
				if rc, err := UnmarshalCandidate(pc); err == nil {
					s.addRemoteStep(x, rc, "late remote "+vfCandAddr(rc))
				}
			}
			s.r.count("c06_pairs_after_failed", 1)
		}
		// candidates that arrive while the agent sits in Failed belong to the generation that Restart ends
		for _, x := range s.sides() {
			sn := x.snapshot()
			if sn.Err != nil || sn.State != ConnectionStateFailed || s.rng.IntN(2) == 0 {
				continue
			}
			for _, pc := range s.other(x).localCandsAll {
				if rc, err := UnmarshalCandidate(pc); err == nil && s.rng.IntN(2) == 0 {
					s.addRemoteStep(x, rc, "remote told while Failed "+vfCandAddr(rc))
				}
			}
			s.restartStep(x) // asserts that nothing of the ended generation is left
			s.r.count("c06_restart_from_failed", 1)
		}
	}
	s.emittedCheck(0)
	r.eval(1)
	r.count("steps", int64(s.stepN))
	if s.broken != "" {
		r.inconclusive(1)
		r.note("run %d lost quiescence: %s", idx, s.broken)

		return
	}
	r.distinct(fmt.Sprintf("c06/%s/a=%d/b=%d/nat=%d/cuts=%d/steps=%d", variant, len(t.AIPs), len(t.BIPs), len(t.NAT), len(t.Unreach), s.stepN/50))
	if idx < 3 {
		sa := s.A.snapshot()
		r.sample(map[string]any{"idx": idx, "variant": variant, "topology": t, "steps": s.stepN, "pairs_on_A_at_end": len(sa.Pairs), "remotes_on_A_at_end": len(sa.Remotes)})
	}
}

// chaosC06 is chaos() with the supersession-aware add-remote step.
func (s *vfSession) chaosC06(n int, budget map[*vfSide]int, pending *[]vfPendingSignal) {
	for i := 0; i < n && s.broken == ""; i++ {
		if len(*pending) > 0 && s.rng.IntN(6) == 0 {
			p := (*pending)[0]
			*pending = (*pending)[1:]
			s.addRemoteStep(p.to, p.cand, p.desc)
			if s.rng.IntN(4) == 0 {
				s.addRemoteStep(p.to, p.cand, p.desc+" (again)")
			}

			continue
		}
		var none []vfPendingSignal
		s.chaos(1, budget, &none, true)
	}
}

func (s *vfSession) fairSuffixC06(pending *[]vfPendingSignal, rounds int) {
	for _, p := range *pending {
		s.addRemoteStep(p.to, p.cand, p.desc)
	}
	*pending = nil
	var none []vfPendingSignal
	s.fairSuffix(&none, rounds, nil)
}

// vfC06RestartRace: Restart while a gather cycle is still adding candidates, with seeded pauses
// at the task-loop hand-off (hook H2). After Restart returned and the old cycle wound down,
// nothing of the old cycle may be listed.
func vfC06RestartRace(e *vfEnv, r *vfResult, idx int, prop string) {
	s := newVfSession(e, r, idx, "restartrace")
	defer s.closeAll()
	rng := s.rng
	n := 1 + rng.IntN(4)
	ips := []string{}
	for i := 0; i < n; i++ {
		ips = append(ips, fmt.Sprintf("10.0.%d.1", i))
	}
	x, err := s.newSide(vfSideCfg{Name: "A", IPs: ips, MaxBinding: 7})
	if err != nil {
		r.inconclusive(1)

		return
	}
	s.A = x
	vfSetYield(newVfYieldPolicy(rng, map[string]int{"taskloop.Run.beforeSelect": 500, "*": 0}, 300))
	defer vfSetYield(nil)
	oldUfrag := x.ufrag
	if err := x.a.GatherCandidates(); err != nil {
		r.inconclusive(1)

		return
	}
	var oldDone chan struct{}
	_ = x.a.loop.Run(x.a.loop, func(context.Context) { oldDone = x.a.gatherCandidateDone })
	time.Sleep(time.Duration(rng.IntN(400)) * time.Microsecond)
	s.step("restart", "A", 0, "while gathering")
	if err := x.a.Restart("", ""); err != nil {
		r.inconclusive(1)

		return
	}
	select {
	case <-oldDone:
	case <-time.After(20 * time.Second):
		r.inconclusive(1)
		r.note("old gather cycle did not wind down")

		return
	}
	vfSetYield(nil)
	_ = vfAwaitNotifiers(x.a)
	sn := x.snapshot()
	r.eval(1)
	r.count("restart_race_runs", 1)
	r.distinct(fmt.Sprintf("restart-race/n=%d", n))
	if sn.Err != nil {
		return
	}
	if len(sn.Locals) > 0 {
		stale := []string{}
		for _, c := range sn.Locals {
			stale = append(stale, fmt.Sprintf("%s(ufrag %s)", c.Addr, c.Ufrag))
		}
		sig := "restart-race-old-cycle-candidate-listed"
		s.viol(prop, sig, fmt.Sprintf("Restart returned and the cancelled gather cycle (ufrag %s) wound down, yet %d local candidate(s) are listed: %v (gathering state %s)", oldUfrag, len(sn.Locals), stale, sn.Gathering), nil)
	}
	if sn.Gathering != GatheringStateNew {
		s.viol("C18", "restart-race-gathering-state", fmt.Sprintf("gathering state %s after Restart with no new cycle started", sn.Gathering), nil)
	}
}

func TestVerifC06(t *testing.T) {
	vfRun(t, "C06", func(e *vfEnv, r *vfResult) {
		n := e.n(2400, 150000)
		for i := 0; i < n; i++ {
			if e.only >= 0 && i != e.only {
				continue
			}
			switch {
			case i%8 == 7:
				vfC06RestartRace(e, r, i, "C06")
			case i%8 == 6:
				vfC01Run(e, r, i)
			default:
				vfC06Run(e, r, i)
			}
		}
	})
}
