//go:build verif

package ice

// Scripted peer for agent-vs-peer sessions: the harness speaks STUN itself, with the
// right credentials, but is free to violate the protocol (early/repeated
// USE-CANDIDATE, withheld or misdirected responses, same-role requests, explicit
// nomination values, forged messages).

import (
	"crypto/rand"
	"fmt"
	"net"
	"net/netip"
	"time"

	"github.com/pion/stun/v3"
)

type vfPeer struct {
	s          *vfSession
	name       string
	ufrag, pwd string
	socks      []*vfConn
	tie        uint64
	inbox      []*vfDgram // datagrams delivered to the peer's sockets, not yet looked at
	answered   map[string]bool
}

func (s *vfSession) newPeer(ips ...string) (*vfPeer, error) {
	p := &vfPeer{s: s, name: "P", ufrag: "peerUfragXYZ1", pwd: "peerPasswordPeerPassword32bytes!", tie: 7777, answered: map[string]bool{}}
	n := vfSimpleNet(s.sw, "P", ips...)
	for _, ip := range ips {
		c, err := n.ListenUDP("udp", &net.UDPAddr{IP: net.ParseIP(ip), Port: 0})
		if err != nil {
			return nil, err
		}
		vc := c.(*vfConn) //nolint:forcetypeassert
		vc.manual = p
		p.socks = append(p.socks, vc)
	}
	s.sw.addPwd("P.g0", p.pwd)
	s.P = p

	return p, nil
}

type vfReqOpts struct {
	UseCand    bool
	Nomination *uint32
	Role       string // "controlling", "controlled", "" (none)
	Tie        uint64
	Priority   uint32
	NoPriority bool
	Username   *string // override
	Pwd        *string // override integrity key; "" = no integrity
	NoFinger   bool
	TxID       *[stun.TransactionIDSize]byte
	Class      stun.MessageClass
	Method     *stun.Method
	Extra      []stun.Setter
}

func vfNewTxID() (id [stun.TransactionIDSize]byte) {
	_, _ = rand.Read(id[:])

	return id
}

// buildRequest builds a Binding request (or other class/method) the way a peer of agent x would.
func (p *vfPeer) build(x *vfSide, o vfReqOpts) *stun.Message {
	typ := stun.MessageType{Method: stun.MethodBinding, Class: o.Class}
	if o.Method != nil {
		typ.Method = *o.Method
	}
	tx := vfNewTxID()
	if o.TxID != nil {
		tx = *o.TxID
	}
	setters := []stun.Setter{typ, stun.NewTransactionIDSetter(tx)}
	user := x.ufrag + ":" + p.ufrag
	if o.Username != nil {
		user = *o.Username
	}
	if user != "\x00none" {
		setters = append(setters, stun.NewUsername(user))
	}
	if o.UseCand {
		setters = append(setters, UseCandidate())
	}
	if o.Nomination != nil {
		setters = append(setters, Nomination(*o.Nomination))
	}
	switch o.Role {
	case "controlling":
		setters = append(setters, AttrControlling(o.Tie))
	case "controlled":
		setters = append(setters, AttrControlled(o.Tie))
	}
	if !o.NoPriority {
		pr := o.Priority
		if pr == 0 {
			pr = 1845501695
		}
		setters = append(setters, PriorityAttr(pr))
	}
	setters = append(setters, o.Extra...)
	pwd := x.pwd
	if o.Pwd != nil {
		pwd = *o.Pwd
	}
	if pwd != "" {
		setters = append(setters, stun.NewShortTermIntegrity(pwd))
	}
	if !o.NoFinger {
		setters = append(setters, stun.Fingerprint)
	}
	m, err := stun.Build(setters...)
	if err != nil {
		panic(fmt.Sprintf("harness: cannot build STUN message: %v", err))
	}

	return m
}

func (p *vfPeer) send(sock *vfConn, dst netip.AddrPort, raw []byte) *vfDgram {
	return p.s.sw.emit(sock, dst, raw, false)
}

// take returns and clears what was delivered to the peer's sockets.
func (p *vfPeer) take() []*vfDgram {
	out := p.inbox
	p.inbox = nil

	return out
}

// respond builds the success response to request d (received on one of the peer's sockets)
// and sends it from sock (normally the receiving socket) to dst (normally the request's source).
func (p *vfPeer) respond(d *vfDgram, sock *vfConn, dst netip.AddrPort, pwd string) *vfDgram {
	m := &stun.Message{Raw: append([]byte{}, d.Data...)}
	if err := m.Decode(); err != nil {
		return nil
	}
	setters := []stun.Setter{
		stun.MessageType{Method: stun.MethodBinding, Class: stun.ClassSuccessResponse}, stun.NewTransactionIDSetter(m.TransactionID),
		&stun.XORMappedAddress{IP: d.Src.Addr().AsSlice(), Port: int(d.Src.Port())},
	}
	if pwd != "" {
		setters = append(setters, stun.NewShortTermIntegrity(pwd))
	}
	setters = append(setters, stun.Fingerprint)
	out, err := stun.Build(setters...)
	if err != nil {
		return nil
	}

	return p.send(sock, dst, out.Raw)
}

func (p *vfPeer) sockFor(local netip.AddrPort) *vfConn {
	for _, c := range p.socks {
		if c.local == local {
			return c
		}
	}

	return nil
}

// inject places a forged datagram with an arbitrary source address into the in-flight pool.
func (s *vfSwitch) inject(src, dst netip.AddrPort, data []byte) *vfDgram {
	s.mu.Lock()
	defer s.mu.Unlock()
	s.nextID++
	d := &vfDgram{ID: s.nextID, Src: src, Dst: dst, SrcPriv: src, Data: append([]byte{}, data...), Len: len(data), Emitter: "forger", Step: s.step, Forged: true}
	d.Stun = vfDecodeStun(d.Data, s.pwds)
	if !d.Stun.IsStun {
		d.Stun = nil
	}
	s.wire = append(s.wire, d)
	s.inflight = append(s.inflight, d)

	return d
}

// ---------------------------------------------------------------- fake STUN server on the switch

// vfStunServer is a harness-controlled STUN server: requests are parked until the
// workload decides to answer (or never does).
type vfStunServer struct {
	sw   *vfSwitch
	sock *vfConn
	peer *vfPeer // reuses the manual-socket inbox
	addr netip.AddrPort
}

func newVfStunServer(sw *vfSwitch, ip string, port int) (*vfStunServer, error) {
	n := vfSimpleNet(sw, "S", ip)
	c, err := n.ListenUDP("udp", &net.UDPAddr{IP: net.ParseIP(ip), Port: port})
	if err != nil {
		return nil, err
	}
	vc := c.(*vfConn) //nolint:forcetypeassert
	p := &vfPeer{name: "S", answered: map[string]bool{}}
	vc.manual = p

	return &vfStunServer{sw: sw, sock: vc, peer: p, addr: vc.local}, nil
}

// pump moves everything addressed to the server from the in-flight pool to its inbox and returns the parked requests.
func (s *vfStunServer) pump() []*vfDgram {
	for _, id := range s.sw.inflightIDs() {
		s.sw.mu.Lock()
		var d *vfDgram
		for _, x := range s.sw.inflight {
			if x.ID == id {
				d = x
			}
		}
		s.sw.mu.Unlock()
		if d != nil && d.Dst == s.addr {
			_, _ = s.sw.deliverID(id, false)
		}
	}
	out := s.peer.inbox
	s.peer.inbox = nil

	return out
}

// reply answers a parked Binding request with the given mapped address and delivers the response.
func (s *vfStunServer) reply(req *vfDgram, mapped netip.AddrPort) (bool, error) {
	m := &stun.Message{Raw: append([]byte{}, req.Data...)}
	if err := m.Decode(); err != nil {
		return false, nil //nolint:nilerr
	}
	out, err := stun.Build(stun.NewTransactionIDSetter(m.TransactionID), stun.BindingSuccess,
		&stun.XORMappedAddress{IP: mapped.Addr().AsSlice(), Port: int(mapped.Port())})
	if err != nil {
		return false, nil //nolint:nilerr
	}
	d := s.sw.emit(s.sock, req.Src, out.Raw, false)

	return s.sw.handOver(d.ID, 2*time.Second), nil
}
