// linz checks recorded credential histories of pion/ice agents for linearizability with porcupine.
// usage: linz <history.json>...   exit 0 always; prints one JSON line per file: {"file":..,"result":"ok|illegal|unknown","ops":n}
package main

import (
	"encoding/json"
	"fmt"
	"os"
	"time"

	"github.com/anishathalye/porcupine"
)

type op struct {
	Client int    `json:"client"`
	Kind   string `json:"kind"` // setremote / restart / getlocal / getremote
	A      string `json:"a"`
	B      string `json:"b"`
	OutA   string `json:"out_a"`
	OutB   string `json:"out_b"`
	Err    string `json:"err"`
	Call   int64  `json:"call"`
	Return int64  `json:"return"`
}

type state struct{ lu, lp, ru, rp string }

func main() {
	model := porcupine.Model{
		Init: func() any { return state{} },
		Step: func(st, in, out any) (bool, any) {
			s := st.(state)
			o := in.(op)
			r := out.(op)
			switch o.Kind {
			case "init":
				return true, state{lu: r.OutA, lp: r.OutB}
			case "setremote":
				if r.Err != "" {
					return true, s // an operation that failed (agent closed) has no effect
				}
				s.ru, s.rp = o.A, o.B
				return true, s
			case "restart":
				if r.Err != "" {
					return true, s
				}
				return true, state{lu: o.A, lp: o.B}
			case "getlocal":
				if r.Err != "" {
					return true, s
				}
				return r.OutA == s.lu && r.OutB == s.lp, s
			case "getremote":
				if r.Err != "" {
					return true, s
				}
				return r.OutA == s.ru && r.OutB == s.rp, s
			}
			return false, s
		},
		Equal: func(a, b any) bool { return a.(state) == b.(state) },
		DescribeOperation: func(in, out any) string {
			o, r := in.(op), out.(op)
			return fmt.Sprintf("%s(%s,%s)->(%s,%s,%s)", o.Kind, o.A, o.B, r.OutA, r.OutB, r.Err)
		},
	}
	for _, f := range os.Args[1:] {
		b, err := os.ReadFile(f)
		if err != nil {
			continue
		}
		var ops []op
		if json.Unmarshal(b, &ops) != nil {
			continue
		}
		var pops []porcupine.Operation
		for _, o := range ops {
			pops = append(pops, porcupine.Operation{ClientId: o.Client, Input: o, Call: o.Call, Output: o, Return: o.Return})
		}
		res := porcupine.CheckOperationsTimeout(model, pops, 30*time.Second)
		out := map[string]any{"file": f, "ops": len(ops), "result": map[porcupine.CheckResult]string{porcupine.Ok: "ok", porcupine.Illegal: "illegal", porcupine.Unknown: "unknown"}[res]}
		j, _ := json.Marshal(out)
		fmt.Println(string(j))
	}
}
