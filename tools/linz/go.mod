module verif/linz

go 1.24.0

require github.com/anishathalye/porcupine v1.3.0
