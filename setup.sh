#!/usr/bin/env bash
# MANIFEST.setup_cmd: build what the checks need from files on disk only (offline).
set -euo pipefail
here=$(cd "$(dirname "$0")" && pwd)
cd "$here"
export GOPROXY=off GOFLAGS=-mod=mod GOTOOLCHAIN=local
unset GOSUMDB || true
GO=/root/go/pkg/mod/golang.org/toolchain@v0.0.1-go1.24.0.linux-amd64/bin/go
[ -x "$GO" ] || GO=$(command -v go1.26.8 || command -v go)
mkdir -p out bin evidence
# offline linearizability checker (porcupine) used by C10
if [ -d tools/linz ]; then
  (cd tools/linz && "$GO" build -o "$here/bin/linz" . )
fi
# warm the build cache: harness test binaries, plain and race
python3 - <<'PY'
import sys, os
sys.path.insert(0, os.path.join(os.getcwd(), "driver"))
import vcheck
out = os.path.join(vcheck.VERIF, "out", "setup")
os.makedirs(out, exist_ok=True)
ov = vcheck.write_overlay(out)
for pkg in (".", "./internal/taskloop"):
    for race in (False, True):
        vcheck.build(pkg, race, ov, out)
for f in os.listdir(out):
    if f.endswith(".test"):
        os.remove(os.path.join(out, f))
print("setup ok")
PY
