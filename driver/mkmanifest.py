#!/usr/bin/env python3
"""Regenerates /verif/MANIFEST.json from driver/props.py (run after editing props.py)."""
import json
import os
import subprocess
import sys

VERIF = os.path.dirname(os.path.dirname(os.path.abspath(__file__)))
sys.path.insert(0, os.path.join(VERIF, "driver"))
from props import PROPS, ENGINES, NOT_YET  # noqa: E402

ids = [json.loads(l)["id"] for l in open(os.path.join(VERIF, "properties.jsonl")) if l.strip()]
hooks_commits = subprocess.run(["git", "-C", "/repo", "log", "--format=%H", "--grep=^verif hooks"], capture_output=True, text=True).stdout.split()
checks = []
for pid in ids:
    if pid not in PROPS:
        continue
    c = PROPS[pid]
    checks.append({
        "property_id": pid,
        "quick_cmd": "./check %s quick" % pid,
        "thorough_cmd": "./check %s thorough" % pid,
        "evidence_file": "/verif/evidence/%s.json" % pid,
        "replay_cmd_template": "./check %s --replay {path}" % pid,
        "engine": c.get("engine", ""),
        "level_claimed": {"category": c["level"], "text": c["level_text"], "design_ref": c.get("design_ref", "DESIGN.md section 5 " + pid)},
        "level_note": c["level_note"],
        "technique": c["technique"],
    })
na = [{"property_id": pid, "reason": NOT_YET.get(pid, "no check built yet in this round; see DESIGN.md section 5 for the planned monitor")}
      for pid in ids if pid not in PROPS]
m = {
    "version": 1,
    "setup_cmd": "./setup.sh",
    "hooks": {
        "guard": "verif (Go build tag)",
        "enable": "go test -tags verif -overlay <map of /verif/harness/*/*.go into the package dirs> (driver/vcheck.py builds this from /repo's working tree on every invocation)",
        "baseline_off_cmd": "cd /repo && GOFLAGS=-mod=mod GOPROXY=off go test -json -vet=off -count=1 -timeout 25m ./...",
        "source_commits": hooks_commits,
        "add_only": True,
    },
    "engines": ENGINES,
    "checks": checks,
    "not_applicable": na,
    "notes": "Runtime monitoring only: every check runs the real pion/ice code (built from /repo's working tree with -tags verif, harness injected by -overlay) "
             "in child processes and decides with oracles over what was observed. known_findings.txt lists repaired (fixed:) and recorded (known:) defects.",
}
with open(os.path.join(VERIF, "MANIFEST.json"), "w") as fh:
    json.dump(m, fh, indent=1)
    fh.write("\n")
print("MANIFEST.json: %d checks, %d not_applicable" % (len(checks), len(na)))
