"""Per-property configuration of the checks (which harness entry points, shards, budgets)."""


def part(test, pkg=".", race=False, q=16, t=16, tq=900, tt=5400, env=None):
    return {"test": test, "pkg": pkg, "race": race, "shards": {"quick": q, "thorough": t},
            "timeout": {"quick": tq, "thorough": tt}, "env": env or {}}


PROPS = {
    "C17": {
        "parts": [part("TestVerifC17", q=16, t=16), part("TestVerifC17Live", q=16, t=16)],
        "level": "exploration",
        "engine": "E7 refmodel",
        "level_text": "Exhaustive runtime evaluation of the candidate priority functions over every TCP offset x type x network x tcptype x relay protocol "
                      "(x 4 components quick / 255 thorough) against an independent reference, plus boundary+random sampling of the pair formula (big-int reference, "
                      "mirror symmetry, monotonicity) and the foundation iff-law. Exhaustive for the candidate formula, sampled for the 2^64 pair space. "
                      "Live part (E1 simnet): two real agents, half of the sessions started in the same role so that a role conflict forces a role switch in mid-session; after every step "
                      "each listed pair's priority is compared with the formula for the agent's CURRENT role, and after convergence mirrored pairs must carry the same number and order on both agents.",
        "level_note": "Trusts the harness reference formula (written from the property text) and that candidates built through the public constructors with an "
                      "in-package agent pointer behave like gathered ones; the pair space is sampled, not enumerated.",
        "exhaustive": True,
        "technique": "reference-model monitor over an exhaustive input grid (runtime assertion of the real functions against an independent formula) plus a state-invariant monitor on live two-agent sessions (pair priority vs formula for the current role after every step; mirrored-pair agreement at convergence)",
        "rule": "candidate formula: EVERY TCP offset 0..65535 x {type x network x tcptype x relay protocol} (70 combinations) x components "
                "{1,2,128,255} (quick) or 1..255 (thorough) is evaluated on the real Priority/TypePreference/LocalPreference through a real Agent; "
                "pair formula: all pairs of 26 boundary values + PRNG pairs, each compared with a big-integer reference, mirrored view and +1 monotonicity; "
                "foundations: 240 addresses x 4 types x 2 transports x 3 variations. distinct_nontrivial counts distinct (combination, resulting type preference) "
                "classes, boundary pairs and foundation keys actually evaluated",
        "assumptions": ["type preference 'reduced by the offset' saturates at 0 (the statement bounds it to 0..126)",
                        "relay protocol preferences are udp 3 > dtls 2 > tcp 1 > tls 0"],
    },
}

PROPS["C16"] = {
    "parts": [part("TestVerifC16", q=16, t=16)],
    "level": "exploration",
    "engine": "E7 refmodel",
    "technique": "law-based runtime monitor (round-trip, reflexivity, symmetry, DeepEqual=>Equal, codec inverse, size rejection) over seeded generated candidates, mutated/random texts and attribute byte strings, panics recovered per case",
    "level_text": "Seeded generation of candidates through the public constructors over type x transport x host TCP type x address form (v4, v6, v4-mapped, mDNS) x "
                  "related-address form (absent, normal, 0.0.0.0:0, :::0, port 0, v6) x component x priority/foundation overrides x extension lists; every case is marshalled, "
                  "parsed and compared getter by getter and with Equal/DeepEqual both ways; texts (seed corpus, 1-3 mutations, random) are checked for no-panic and "
                  "accepted => re-marshal parses to an Equal/DeepEqual candidate; attribute codecs on boundary+random values and every raw size 0..40, each decode done into a fresh variable and into one reused from the previous iteration.",
    "level_note": "Sampled, not exhaustive. Excluded on purpose as ambiguous: zoned IPv6 literals, components outside 1..255, extension bytes that are not valid UTF-8 or "
                  "runes above U+00FF (the parser reads runes), empty extension values in constructed candidates, non-empty USE-CANDIDATE values.",
    "rule": "cases = generated candidate specs (PRNG from VERIF_SEED) + texts + attribute values; distinct_nontrivial counts distinct candidate classes "
            "(type/transport/address form/tcptype/related form/#extensions/overrides), distinct token-shapes of ACCEPTED texts, attribute value classes and (attribute,size) pairs",
    "assumptions": ["extensions are compared as multisets", "nomination values >= 2^24 are outside the statement"],
}

PROPS["C19"] = {
    "parts": [part("TestVerifC19", q=16, t=16)],
    "level": "exploration",
    "engine": "E7 refmodel",
    "technique": "reference-model monitor: generated rule lists x all lookup keys of small pools, real mapper vs an independent implementation of the documented precedence; constructor-validity oracle; three construction paths",
    "level_text": "Seeded rule lists (0-6 rules over 3 interfaces, 4 CIDRs, 6 local and 6 external v4/v6 addresses, 3 modes, 4 candidate types, network restrictions) are compiled by the real "
                  "newAddressRewriteMapper (and, for lists that qualify, by WithAddressRewriteRules and the legacy NAT1To1IPs path through NewAgent); all 96 lookup keys "
                  "(3 types x 8 local IPs x 4 interface names) are compared with a reference of the documented precedence on (matched, mode, ordered external IPs); invalid lists must be rejected. "
                  "End to end: agents over the fake Net (1-3 named interfaces, 1-2 pool addresses each) gather host candidates under generated rule lists; the addresses published per local socket must be what the precedence gives for (host, local address, interface) in replace / append mode.",
    "level_note": "Sampled rule lists, exhaustive over lookup keys of the pools. Not generated (ambiguous, DESIGN 6): catch-all rules whose CIDR family differs from their externals' family, "
                  "family-restricted rules whose externals are all of the other family, empty External through the public option. End-to-end use during gathering is covered under C18.",
    "rule": "case = one rule list (PRNG from VERIF_SEED, run index) evaluated on 96 lookup keys; distinct_nontrivial counts distinct rule-list shapes "
            "(per rule: has Local/Iface/CIDR/Networks, #externals, effective mode) plus invalid-kind and legacy-list classes",
    "assumptions": ["'first explicit Local match' and 'most specific catch-all, declaration order on ties' as stated in the property and the WithAddressRewriteRules doc comment"],
}

PROPS["C14"] = {
    "parts": [part("TestVerifC14", q=16, t=16)],
    "level": "exploration",
    "engine": "E6 tcpmon",
    "technique": "round-trip monitor over a re-chunking net.Conn (seeded stream partitions) + differential check against a reference RFC 4571 deframer on truncated/hostile streams, with an over-read monitor; real loopback TCP for activeTCPConn",
    "level_text": "Packet lists (lengths 0..65535, boundary-heavy) are framed by the real writeStreamingPacket, the byte stream is re-served under six partition kinds "
                  "(1-byte, header-split, random small/large, coalesced, all-at-once) and read back with the real readStreamingPacket, tcpPacketConn.ReadFrom and (loopback) "
                  "activeTCPConn; truncated, garbage and huge-length streams are compared with a reference deframer; every call is panic-guarded; the conn records the "
                  "largest and out-of-segment read requests. "
                  "Part (H): TCPMuxDefault.handleConn is fed a re-chunked stream (first STUN frame + packets; a third with the first frame coalesced with what follows; hostile first frames): the packet conn of that ufrag must deliver the first message and every following packet in order. "
                  "A third of the tcpPacketConn and handleConn streams have late-arrival offsets: a reader with a read deadline armed gets one timeout error there (as on a real socket), one without notices nothing. "
                  "Half of the part-(H) histories accept a second connection before the first message of the first one is read; a quarter of the write-side histories use a 9-39 kB write buffer behind a stalled peer (WriteTo has to refuse packets; what it accepted reaches the wire in order); one loopback session in ten ends with an oversized (8193..65535 byte) write to activeTCPConn: the peer sees the stream end, never a frame. "
                  "One loopback session in forty stalls for 1.25 s (thorough: up to 3.5 s) in the middle of a frame towards activeTCPConn.",
    "level_note": "Sampled packet lists and partitions (not all partitions of all streams). The loopback part depends on kernel TCP; a stalled loopback session is counted inconclusive, never a violation - "
                  "except when the state of the stream decides: the peer has sent a well-formed stream completely and still holds the connection open, nothing is unsent or unread on either socket (TIOCOUTQ/TIOCINQ) "
                  "and the read loop is parked waiting for more (or has ended), yet a packet never came out of ReadFrom.",
    "rule": "case = (packet list, partition kind, buffer mode) or (hostile stream, buffer capacity, partition); distinct_nontrivial counts distinct "
            "(partition kind, buffer mode, list-length bucket, max-length bucket) and hostile (mode, partition, capacity, stream-size bucket) classes",
    "assumptions": ["a net.Conn returns data and errors in separate Read calls", "after a refused (too large) frame the stream is abandoned, as all users of the framing do"],
}

PROPS["C01"] = {
    "parts": [part("TestVerifC01", q=16, t=16, tq=900)],
    "level": "exploration",
    "engine": "E1 simnet",
    "technique": "deterministic two-agent simulation of the real agents over an in-memory switch with a harness-driven scheduler (parked check ticker, per-datagram deliver/drop/duplicate), convergence/mirror oracle computed from the harness topology, monitors after every step",
    "level_text": "Seeded exploration of topologies (1-4 host addresses per side, IPv4/IPv6, static NAT with srflx-like signalling or peer-reflexive discovery, one-way and full partitions) x "
                  "message schedules (reorder, drop, duplicate, trickle order, tick interleaving within the retry budget) followed by a fair loss-free suffix; verdict from logical steps, not time.",
    "level_note": "Host candidates over a fake transport.Net (no real sockets, no srflx/relay gathering); UDP everywhere, simulated ICE-TCP passive candidates in the C02/C06 sessions only; schedules are sampled; runs slower than 3 s are not judged (4 s transaction expiry is wall-clock).",
    "rule": "case = (topology, signalling plan, scheduler choices) from PRNG(VERIF_SEED, shard, index); non-trivial = the run executed; distinct_nontrivial counts distinct "
            "(|A|,|B|,#NAT,#cuts,v6,#bidirectional pairs,budget,chaos-length bucket) classes",
    "assumptions": ["static 1:1 NAT (full cone)", "acceptance waits and liveness timeouts set to 0 so that nothing depends on the wall clock"],
}

PROPS["C03"] = {
    "parts": [part("TestVerifC03", q=16, t=16, tq=900)],
    "level": "exploration",
    "engine": "E1 simnet",
    "technique": "shadow wire-log monitor: after every simulation step a change of the selected pair must be backed by datagrams the harness itself decoded and integrity-checked (own answered check + nomination); every emitted request is classified by role",
    "level_text": "Half of the histories are agent-vs-agent chaos (as C01), half are one real agent against a scripted, correctly authenticated peer that nominates early, repeatedly, on any pair, "
                  "with/without nomination values, withholds, delays or reorders its responses; configurations full, lite and lite+priority-check. The oracle is the wire log, not agent state.",
    "level_note": "Schedules and peer scripts are sampled. 'Priority' in the downward-switch clause is the RFC pair formula recomputed by the harness from the candidates' priorities. "
                  "No application binding-request handler is installed (excluded by the property).",
    "rule": "case = one session history; distinct_nontrivial counts distinct topology/schedule classes (agent-vs-agent) and (mode, values, #sockets, length bucket) classes (scripted peer); "
            "coverage_sets.c03_selections lists the kinds of selection events observed",
    "assumptions": ["static 1:1 NAT", "timeouts disabled so nothing depends on the wall clock"],
}
PROPS["C06"] = {
    "parts": [part("TestVerifC06", q=16, t=16, tq=900)],
    "level": "exploration",
    "engine": "E1 simnet",
    "technique": "structural-invariant monitor: after every simulation step the checklist, id index, candidate maps and pending transactions are walked inside a task-loop task and cross-checked with the public views; before/after comparison around every prflx supersession and Restart",
    "level_text": "Histories over random topologies with duplicate trickle, prflx-then-signalled and signalled-then-prflx orders, remote IP filters (signalled and peer-reflexive sources), "
                  "coordinated Restart at random steps, Failed via millisecond timeouts, and Restart racing a running gather cycle with seeded pauses at the task-loop hand-off (hook H2).",
    "level_note": "Invariants are evaluated only at quiescent points under the agent's own serialisation. UDP host candidates plus, in a third of the sessions, simulated ICE-TCP passive locals; TCP-active remotes are exercised through the add path only (no TCP connection is dialled in the simulation).",
    "rule": "case = one session history (all monitors after every step); distinct_nontrivial counts distinct (variant, |A|, |B|, #NAT, #cuts, length bucket) classes",
    "assumptions": ["pair ids are compared within one generation (shadow map reset at Restart)"],
}
PROPS["C04"] = {
    "parts": [part("TestVerifC04", q=16, t=16, tq=900)],
    "level": "exploration",
    "engine": "E1 simnet",
    "technique": "online automaton over the connection-state callback log after every simulation step + interval-sound timing samples (last-received instant set explicitly, monotonic readings bracket the synchronous tick, judged only when the whole silence interval is on one side of every threshold)",
    "level_text": "Timeout configurations D,F in {0, 20ms, 50ms, 400ms, 3s} x lite/full x controlling/controlled; silences at, just below, just above each threshold and uniform; traffic resuming; the initial checking "
                  "deadline with millisecond timeouts and real sleeps (bracketed), Restart from Failed; Close/GracefulClose from every state; the automaton also runs over C01/C06 histories (Restart, Failed, filters). "
                  "Default second-scale timeouts are compared as values, not waited for.",
    "level_note": "Measure-zero boundaries (silence exactly equal to a threshold) are not judged; samples whose bracketing interval straddles a threshold are counted inconclusive. "
                  "Restart from Checking does not restart the deadline in the code and the statement does not say either way: not judged.",
    "rule": "case = one timing sample, deadline sample, close run or session history; distinct_nontrivial counts (D,F,lite,role) timing classes, deadline classes, close-from-state classes and history classes; "
            "coverage_sets.c04_edges lists the edges of the documented graph that were observed",
    "assumptions": ["time.Now() readings around a synchronous tick bound the instant at which the agent read the clock"],
}
PROPS["C07"] = {
    "parts": [part("TestVerifC07", q=16, t=16, tq=900)],
    "level": "exploration",
    "engine": "E1 simnet",
    "technique": "conservation monitor over uniquely tagged payloads: the switch observes socket and destination of every written payload, the harness decides eligibility of every inbound datagram from its own knowledge, and the multiset read from Conn must equal the eligible deliveries; byte/packet counters compared with the harness tally",
    "level_text": "Writes before selection, after it, across re-selection and coordinated Restart; payload sizes 12..8100 with a share that parses as STUN; inbound data from known remotes, unknown sources, "
                  "right-IP-wrong-port sources, duplicates on the wire; all interleaved with the C01 scheduler (ticks, drops, reorder, trickle). "
                  "Conn.WriteToPair on random listed pairs and on ids never handed out: refused for STUN-like payloads, unknown ids and pairs that are not validated; otherwise exactly one datagram over that pair's addresses. "
                  "One read in six uses a slice of 1-11 bytes (io.ErrShortBuffer with n > 0: the bytes handed over are counted, the datagram is consumed); "
                  "about one session in three has a flood step: 1000 datagrams of 1200 B arrive while nobody reads (the 1 MB receive buffer overflows), after which Conn.BytesReceived and the selected pair's "
                  "packet/byte counters must have advanced by exactly what the reader finally gets.",
    "level_note": "All data travels over UDP pairs. 'Known on the other transport' is produced as UDP datagrams from an address the agent knows only as a remote TCP candidate (must be discarded); application data over a selected TCP pair is not exercised. Outside the flood step readers are drained after every step via the packet buffer count, so Read never blocks.",
    "rule": "case = one session history with data steps; distinct_nontrivial counts (|A|,|B|,#NAT,#cuts,restart,payloads-read bucket) classes; counters give writes, eligible and ineligible inbound payloads",
    "assumptions": ["a payload 'parses as STUN' iff stun.IsMessage accepts it"],
}
PROPS["C20"] = {
    "parts": [part("TestVerifC20", q=16, t=16, tq=900)],
    "level": "exploration",
    "engine": "E1 simnet",
    "technique": "reference-model monitor (strict running maximum of delivered nomination values and its pair) evaluated after every delivery in a scripted-peer session, plus a two-agent quiescence oracle (mirror image of the pair that carried the highest delivered value) with the scheduler permuting requests and responses",
    "level_text": "Controlled agent vs scripted controlling peer: 1-6 nominations with explicit values (increasing, equal, decreasing, 1, 2^24-1) on pairs that are waiting / in progress / succeeded, "
                  "every delivery order incl. duplicates, responses to the agent's triggered checks withheld and released later (the deferred path). Two agents: RenominateCandidate through the public API on valid pairs, "
                  "requests and responses reordered, duplicated and lost (lost nominations re-issued). Error clauses for controlled agents and the feature switched off. "
                  "Later additions: the scripted peer's addresses may be signalled only in the middle of the exchange (deferred nominations across prflx supersession); copies of the plain initial USE-CANDIDATE are interleaved with the valued nominations; "
                  "a two-agent part with WithAutomaticRenomination (the controlling agent renominates by itself during check rounds; reordering, duplication and arbitrary delay, no loss).",
    "level_note": "Plain USE-CANDIDATE before any valued nomination is C03's business; after one it must not change the selection. A renomination is sent once and never retransmitted by the agent: a lost renomination request or response is not recoverable, so loss is only injected where the harness re-issues the nomination. Schedules are sampled.",
    "rule": "case = one session; distinct_nontrivial counts (#sockets, #nominations, max value) and (|A|,|B|,#renominations,lossy) classes",
    "assumptions": ["default nomination value generator (1,2,3,...) on the controlling agent", "renomination requests are not retransmitted by the agent; convergence after a LOST renomination request/response is not claimed"],
}
PROPS["C02"] = {
    "parts": [part("TestVerifC02", q=16, t=16, tq=900)],
    "level": "exploration",
    "engine": "E1 simnet",
    "technique": "differential monitor: full agent snapshot (pairs, candidates with liveness stamps, outstanding transactions, selection, state, role), emitted-datagram count and callback logs compared before/after ONE forged STUN message delivered through a real socket endpoint",
    "level_text": "Grammar-based forger: class x method x USERNAME form (correct, swapped, wrong, absent, previous generation, prefix, trailing colon) x integrity key (correct, other side's, wrong, previous generation, absent) x "
                  "transaction id (fresh, outstanding, already answered, previous generation) x source (known remote, unknown, the request's destination) x random subset/order of ICE attributes; injected before start of checks, "
                  "while checking, when connected and after a coordinated Restart, 15-40 injections per history. Expected effect is derived from first principles (which credential verifies, whether the transaction is outstanding and symmetric).",
    "level_note": "'Known on the other transport' is produced as UDP datagrams from an address the agent knows only as a remote TCP candidate, and as forged checks arriving at simulated TCP passive candidates. Valid requests and valid, transaction-matched, symmetric responses are not judged by this monitor (C03 does). "
                  "Attributes placed after MESSAGE-INTEGRITY are not generated.",
    "rule": "case = one session history with forged-message steps; distinct_nontrivial counts distinct injection classes (kind, username form, key, transaction kind, source kind, expected effect, agent state at injection)",
    "assumptions": ["liveness refresh by a correctly signed response from a known remote is allowed (the statement restricts pair state only)"],
}
def c10_post(outdir, merged, gobin, env):
    """offline oracle: porcupine over the recorded credential histories"""
    import glob
    import json
    import os
    import subprocess
    here = os.path.dirname(os.path.dirname(os.path.abspath(__file__)))
    linz = os.path.join(here, "bin", "linz")
    if not os.path.exists(linz):
        subprocess.run([gobin, "build", "-o", linz, "."], cwd=os.path.join(here, "tools", "linz"), env=env)
    files = sorted(glob.glob(os.path.join(outdir, "linz-*.json")))
    res = {"ok": 0, "illegal": 0, "unknown": 0}
    for i in range(0, len(files), 200):
        p = subprocess.run([linz] + files[i:i + 200], capture_output=True, text=True)
        for line in p.stdout.splitlines():
            try:
                o = json.loads(line)
            except ValueError:
                continue
            res[o["result"]] = res.get(o["result"], 0) + 1
            if o["result"] == "illegal":
                merged["violations"].append({"sig": "credential-history-not-linearizable", "replay": o["file"], "part": "TestVerifC10API",
                                             "msg": "the recorded call/return history of SetRemoteCredentials/Restart/GetLocal/GetRemoteUserCredentials (%d operations) has no linearization" % o["ops"]})
    for k, v in res.items():
        merged["counters"]["porcupine_" + k] = v
    merged["inconclusive"] += res["unknown"]
    for f in files:
        if res["illegal"] == 0:
            os.remove(f)


PROPS["C10"] = {
    "post": c10_post,
    "parts": [part("TestVerifC10Loop", pkg="./internal/taskloop", race=True, q=16, t=16, tq=900),
              part("TestVerifC10API", race=True, q=16, t=16, tq=600, tt=7200)],
    "level": "exploration",
    "engine": "E2 loopmon + E3 apihammer",
    "technique": "Go race detector over hostile concurrent workloads + history monitor of the task loop (global atomic sequence numbers on task start/end, Run return and Close return; overlap counter) with seeded pauses at hook H2 + porcupine linearizability check of the credential operations",
    "level_text": "(a) 2-16 submitters x 1-12 tasks with live / pre-cancelled / cancelled-while-waiting / loop-as-context contexts, 1-3 concurrent closers with and without preStop, seeded yields at the four H2 sites of the loop, all under -race. "
                  "(b) every public Agent/Conn method called from many goroutines against connected agents with traffic, under -race; race reports deduplicated by innermost pion/ice frame pair; credential histories checked with porcupine.",
    "level_note": "Schedules are whatever the Go scheduler plus the seeded pauses produce; a race the workload never provokes is not seen. Tasks never submit to their own loop (documented self-deadlock).",
    "rule": "case = one loop history or one hammer round; distinct_nontrivial counts distinct (submitters, tasks, closers, preStop, yield level, ran-fraction) classes and API method pairs observed concurrently",
    "assumptions": ["the race detector only reports races that actually occur in the executions produced"],
}
PROPS["C11"] = {
    "parts": [part("TestVerifC11", race=True, q=16, t=16, tq=900)],
    "level": "exploration",
    "engine": "E4 lifecycle (notifier part)",
    "technique": "history monitor of each callback stream (unique event ids, overlap counter, sequence numbers around Close) over the real handlerNotifier with hostile handler latencies, re-entrant handlers and seeded pauses at hook H2, under the race detector; grammar check of the OnCandidate log across gather cycles with held STUN replies and Restart",
    "level_text": "Direct notifier histories for all three streams: 1-60 numbered events in bursts, handler latency 0 / Gosched / microseconds / milliseconds / blocks-until-released, handlers that enqueue further events or call Close, "
                  "Close(graceful or not) at a random instant plus a final graceful Close; agent-level: 1-4 gather cycles with explicit ufrags, each either completed (STUN reply delivered) or cancelled by Restart while the query is outstanding; a third of the gather histories also gather relay candidates through a fake TURN client whose allocation is quick or outlasts the STUN timeout, half of them with an unusable (password-less) TURN URL behind the usable one.",
    "level_note": "Handlers that never return are not exercised (GracefulClose is documented to wait for them). Interleavings are those the scheduler and the seeded pauses produce.",
    "rule": "case = one notifier history or one multi-cycle gather history; distinct_nontrivial counts (stream, latency, re-entrancy, close kind/time bucket, yield level, size bucket) and (cycles, completed, addresses, slow handler) classes",
    "assumptions": ["events are enqueued by one goroutine at a time, as the agent loop does"],
}
PROPS["C12"] = {
    "parts": [part("TestVerifC12", race=True, q=16, t=16, tq=900)],
    "level": "exploration",
    "engine": "E5 muxmon",
    "technique": "model-based runtime monitor: random operation sequences on the real UDPMuxDefault over a fake shared socket, compared after every operation with a reference routing table (per-connection FIFO, address bindings, the harness's own address canonicalisation); concurrent histories under the race detector with a schedule-independent oracle",
    "level_text": "Sequences of 20-80 operations over 2-4 ufrags (incl. the empty one) and 8 sources (IPv4, IPv4-mapped IPv6, IPv6, link-local with zone): GetConn (both families on an unspecified-address mux, wrong address), WriteTo, inbound "
                  "(non-STUN, STUN with five USERNAME forms, without USERNAME, undecodable), RemoveConnByUfrag, handle Close, mux Close; both the net.PacketConn and the netip.AddrPort I/O flavours of the handle. "
                  "Concurrent: readers, writers, feeder, removers and closers with seeded pauses at hook H2. One history in three goes through UniversalUDPMuxDefault (inbound XOR-MAPPED-ADDRESS responses included); "
                  "separate histories drive MultiUDPMuxDefault over 2-3 muxes (per-address GetConn, probes per socket, RemoveConnByUfrag on all, Close of all).",
    "level_note": "UniversalUDPMuxDefault (incl. GetXORMappedAddr and XOR-mapped inbound routing) and MultiUDPMuxDefault are driven by their own variants with the same reference routing table; their wrapping layers beyond routing (e.g. interface enumeration of NewMultiUDPMuxFromPort) are not. In the sequential mode the close-watcher goroutine is awaited before the next operation.",
    "rule": "case = one operation sequence; distinct_nontrivial counts (mux flavour, #ufrags, length bucket, #connections) classes and concurrent read-distribution classes",
    "assumptions": ["'after it is removed' covers RemoveConnByUfrag while handles are still open"],
}
PROPS["C13"] = {
    "parts": [part("TestVerifC13", race=True, q=16, t=16, tq=900)],
    "level": "exploration",
    "engine": "E5 muxmon",
    "technique": "race detector + quiescence assertions over concurrent handle histories (Close counter on a fake underlying connection, real UDP/TCP mux handles) and over the write-abort state machine (fake shared socket that blocks writes until a deadline is set, logs every SetWriteDeadline, optionally fails it) with seeded pauses at the H2 windows",
    "level_text": "Reference counting: 1-5 handles on one underlying connection, each with a blocked reader, closed in random order, concurrently, some twice; sequential exact variant through UDPMuxDefault (sibling writes and reads after every close) and TCPMuxDefault. "
                  "Abort protocol: 1-5 writers (plain / context-cancellable) and 1-4 aborters over a socket that blocks or not, SetWriteDeadline failing or not; at quiescence write-state word 0, last deadline zero, probe write succeeds.",
    "level_note": "Schedules come from the Go scheduler plus seeded pauses at hook H2; wall-clock only as a watchdog (20 s).",
    "rule": "case = one handle history or one abort history; distinct_nontrivial counts (handles, first-closed) and (writers, aborters, socket mode, yield level, deadline-log shape) classes",
    "assumptions": ["a write deadline left in the past makes later writes fail (as on a kernel socket)"],
}
PROPS["C18"] = {
    "parts": [part("TestVerifC18", q=16, t=16, tq=900)],
    "level": "exploration",
    "engine": "E4 lifecycle",
    "technique": "reference-model monitor over real gather cycles on a fake transport.Net: published candidates and opened sockets compared with a reference set computed from (configuration, interface table, effective mDNS mode, mux presence); cycle-control assertions; Restart race with seeded pauses at hook H2",
    "level_text": "Generated configurations: candidate types {host, host+srflx, srflx}, network types (nil, empty, udp4, udp6, both, with tcp4), port ranges (none, 1-4 ports, wide), interface and IP deny filters, loopback flag, all mDNS modes, UDP mux (specific / unspecified); "
                  "interface tables with 1-4 interfaces (up, down, loopback) over 12 addresses incl. link-local, site-local fec0::/10, IPv4-compatible, ULA, 169.254/16. Soundness of every published candidate and of every socket the agent opened, completeness of host candidates, "
                  "New->Gathering->Complete, refused second call, exactly one nil; Restart racing a running cycle. "
                  "Also the local candidates created OUTSIDE a gathering cycle: on the real loopback interface a remote ICE-TCP passive candidate is added under candidate types {host, srflx, relay, host+srflx, srflx+relay, default} x network types x DisableActiveTCP, "
                  "and every candidate then published or listed (the active TCP host candidates) must be of an enabled candidate and network type.",
    "level_note": "Relay gathering is exercised under C09, not here. Completeness is asserted for UDP host candidates the agent listens for itself (no UDP mux, mDNS not in gather mode) and for passive TCP host candidates lent by a (fake) TCP mux, also when the UDP mux was closed before gathering.",
    "rule": "case = one configuration x one gather cycle; distinct_nontrivial counts distinct (types, network types, port range, filters, loopback, effective mDNS, mux, #eligible, #published) classes",
    "assumptions": ["effective mDNS mode is read from the agent after construction (opportunistic mDNS may fall back to disabled)"],
}
PROPS["C09"] = {
    "parts": [part("TestVerifC09", q=16, t=16, tq=900)],
    "level": "fault_enumeration",
    "engine": "E4 lifecycle",
    "technique": "resource-tally monitor (every socket of the fake transport.Net, every mux handle, every TURN client / relay allocation has an identity and a close counter) asserted at the quiescent points named by the statement, over scripted lifetimes that enumerate the cut point of Restart/Close against each in-flight STUN exchange under injected faults",
    "level_text": "Gather configurations host / host+srflx / srflx / two STUN servers reporting one mapped address (duplicate candidate) / srflx-mapped (rewrite rules) / relay with a fake TURN client / UDP mux / TCP mux / host+srflx+relay, "
                  "1-3 cycles, cut points {reply then wait, Restart before the reply with the reply delivered afterwards, Restart with no reply, no reply (timeout), Restart at once}, final action Close / GracefulClose / Restart+Close, "
                  "faults: n-th listen fails, TURN Listen fails, TURN Allocate fails, per-address sockets via an IP filter, socket Close errors. "
                  "Separate histories over the real loopback interface: the TCP connections behind active ICE-TCP candidates (towards a real listener) must end after Close / GracefulClose / Restart(+new candidates)+Close, and the descriptor count must return to its baseline.",
    "level_note": "The Failed-state release is covered by C06's 'failed' variant (candidate lists) rather than by the socket tally. Multiple Close calls on one socket are recorded, not judged (two legitimate owners race on shutdown).",
    "rule": "case = one scripted lifetime; distinct_nontrivial counts distinct (configuration kind, #addresses, #cycles, cut sequence, final action, filter, fault) classes",
    "assumptions": ["mDNS sockets belong to the agent's lifetime, not to a generation: judged at Close only"],
}
PROPS["C15"] = {
    "parts": [part("TestVerifC15", race=True, q=16, t=16, tq=900)],
    "level": "exploration",
    "engine": "E6 tcpmon",
    "technique": "conservation/ordering monitor over real loopback TCP (every packet tagged with client id and counter; per-ufrag reads must equal what was addressed to that ufrag, in per-client order, with the client's address; tagged replies must return on the sender's socket), hostile-client disconnection check, post-Close census of listener, client connections, mux goroutines and file descriptors; race detector on",
    "level_text": "1-4 ufrags (one optionally registered only after a client named it: adoption of the provisional connection), 1-12 concurrent clients of kinds good / unknown ufrag / garbage / non-Binding STUN / no USERNAME / oversized first frame / slow-loris / connect-and-close, "
                  "first frame split across writes, with and without write buffering, optionally through MultiTCPMuxDefault; handle Close and RemoveConnByUfrag before mux Close. "
                  "Every 8th history is a directed one: 2-3 overlapping or back-to-back Close calls with silent clients parked in handleConn (each returning Close is followed by an immediate goroutine census with no grace period), "
                  "or the life of a provisional connection: claimed by GetConnByUfrag with clients attaching before and after the claim and traffic exchanged 3x the alive duration later, or left unclaimed while a client reconnects to it every 0.6x alive (must be gone after 15x alive).",
    "level_note": "Timeouts are 120/150 ms and the verdict bound for 'must be disconnected' is 20x that; loopback TCP and the scheduler decide the interleavings.",
    "rule": "case = one mux lifetime with its clients; distinct_nontrivial counts distinct (#ufrags, late registration, #clients, wrapper, set of client kinds) classes",
    "assumptions": ["loopback TCP works in the sandbox"],
}
PROPS["C08"] = {
    "parts": [part("TestVerifC08", race=True, q=16, t=16, tq=420, tt=3600)],
    "level": "fault_enumeration",
    "engine": "E4 lifecycle",
    "technique": "crash-point style fault enumeration of Close over a scripted agent lifetime with a stuck detector (two identical goroutine dumps) as the verdict, parked-caller release check, post-close API sweep (closed error, no datagram, no callback) and goroutine census by creation site; race detector on",
    "level_text": "Close / GracefulClose / Conn.Close injected at 9 positions (new, gathering with a STUN query outstanding, gathered, blocking Dial parked, checking, connected with traffic in flight, restarted, re-gathering, re-gathering cancelled by a further Restart) x 3 close kinds x {API goroutine, inside a callback} enumerated; "
                  "closers 1-4, faults {none, socket write blocks until deadline or close, socket Close returns an error}, callers parked in Conn.Read / AwaitConnect / Dial sampled; repeated closes; 19 public calls after Close. "
                  "Directed scenarios on top: a candidate handed over while Close is in its pre-stop phase, a cancelled gather cycle held in a TURN allocation, an active ICE-TCP dial into a black hole, "
                  "Close during a TLS / DTLS handshake with a TURNS server that accepted and stays silent (loopback), Close while a connectivity check is blocked in the write of a shared UDP mux socket (with and without AddrPort I/O), "
                  "Close with a passive ICE-TCP candidate whose receive queue is full (real TCP mux on loopback, peer sent 8-15 packets nobody read).",
    "level_note": "'Bounded' is relative to the STUN gather timeout (25 ms here): it is the only timer pion/ice uses to bound I/O it cannot abort. A close that is slow but still moving is inconclusive, only a stuck one is a violation. Handlers that never return are not exercised.",
    "rule": "case = one lifetime with one injected close; distinct_nontrivial counts distinct (position, close kind, origin, #closers, fault, parked callers) plans executed",
    "assumptions": ["goroutines are attributed to the agent by their creation site (a go statement in a non-harness file of the module)"],
}
PROPS["C05"] = {
    "parts": [part("TestVerifC05", q=16, t=16, tq=900)],
    "level": "exploration",
    "engine": "E1 simnet",
    "technique": "scripted authenticated peer sends same-role Binding requests with chosen tie-breakers; verdict from the wire (487 / silence / success), the role attribute of the agent's next request and a before/after snapshot; system level: same-role starts under random schedules + C01's convergence oracle",
    "level_text": "All pairs of 8 boundary tie-breaker values (0,1,2,2^63-1,2^63,2^63+1,2^64-2,2^64-1) x both roles exhaustively, random 64-bit pairs incl. equal and adjacent, "
                  "with and without USE-CANDIDATE on the conflicting request; plus both-controlling / both-controlled agent pairs under drop/dup/reorder schedules.",
    "level_note": "Unit level is exhaustive only over the boundary grid; random pairs and schedules are sampled.",
    "rule": "case = one (local, remote, role, use-candidate) unit decision or one same-role session; distinct_nontrivial counts boundary pairs, (order, equal, role) classes of random pairs and system-run classes",
    "assumptions": ["tie-breaker set in-package so that the pair is known to the oracle"],
}

ENGINES = [
    {"name": "E7 refmodel", "path": "harness/ice/vfc16.go, vfc17.go, vfc19.go", "serves_properties": ["C16", "C17", "C19"],
     "kind_free_text": "seeded/exhaustive generators + independent reference implementations evaluated in-process on the real functions"},
]
ENGINES.append({"name": "E6 tcpmon", "path": "harness/ice/vfc14.go, vfc15.go", "serves_properties": ["C14", "C15"],
                "kind_free_text": "framing functions over a re-chunking net.Conn; TCPMuxDefault over real loopback TCP with well-behaved and hostile clients"})
ENGINES.append({"name": "E1 simnet", "path": "harness/ice/vfsim.go, vfsession.go, vfc01.go ...", "serves_properties": ["C01", "C02", "C03", "C04", "C05", "C06", "C07", "C20"],
                "kind_free_text": "two real agents (or agent + scripted authenticated peer) over an in-memory datagram switch; the harness owns the check ticker (hook H1) and every datagram; oracles after every step"})
ENGINES.append({"name": "E2 loopmon + E3 apihammer", "path": "harness/taskloop/vfloop.go, harness/ice/vfc10.go, tools/linz", "serves_properties": ["C10"],
                "kind_free_text": "instrumented task-loop histories and public-API hammering under the race detector; offline porcupine check"})
ENGINES.append({"name": "E5 muxmon", "path": "harness/ice/vfc12.go, vfc13.go", "serves_properties": ["C12", "C13"],
                "kind_free_text": "UDPMuxDefault / shared conns over a fake shared socket fed by the harness; reference routing table; abort-protocol stress"})
ENGINES.append({"name": "E4 lifecycle", "path": "harness/ice/vfc08.go, vfc09.go, vfc11.go, vfc18.go", "serves_properties": ["C08", "C09", "C11", "C18"],
                "kind_free_text": "scripted agent lifetimes over the tallying fake Net (every socket open/close), fake STUN server with held replies, fake TURN client, fault-injecting sockets"})

# properties without a check yet (kept current by hand)
NOT_YET = {}
