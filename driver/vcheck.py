#!/usr/bin/env python3
"""Driver for the pion/ice runtime-monitoring checks (see /verif/DESIGN.md section 2).

usage: vcheck.py <Cxx> <quick|thorough> [--replay <violation.json>] [--scale f] [--keep]

Per invocation: write the overlay map, build the harness test binary from /repo's
current working tree (tags verif, optionally -race), run it as child processes
(one per shard) under a watchdog, merge their result files, parse race logs,
apply known_findings.txt, write evidence/<id>.json, print VIOLATION /
KNOWN-FINDING lines, exit 0 / 1 (2 = the check itself could not produce a verdict).
"""
import glob
import json
import os
import re
import shutil
import signal
import subprocess
import sys
import time

VERIF = os.path.dirname(os.path.dirname(os.path.abspath(__file__)))
REPO = os.environ.get("VERIF_REPO", "/repo")
sys.path.insert(0, os.path.join(VERIF, "driver"))
from props import PROPS  # noqa: E402


def go_bin():
    modcache = os.environ.get("GOMODCACHE", "/root/go/pkg/mod")
    cand = os.path.join(modcache, "golang.org/toolchain@v0.0.1-go1.24.0.linux-amd64/bin/go")
    if os.path.exists(cand):
        return cand
    for c in ("/opt/veriftools/go1.26.8/bin/go",):
        if os.path.exists(c):
            return c
    return shutil.which("go1.26.8") or "go"


def go_env():
    env = dict(os.environ)
    env.update({"GOTOOLCHAIN": "local", "GOFLAGS": "-mod=mod", "GOPROXY": "off", "CGO_ENABLED": env.get("CGO_ENABLED", "1")})
    env.pop("GOSUMDB", None)
    env["GONOSUMDB"] = "*"
    env["GONOSUMCHECK"] = "1"
    env["GOFLAGS"] = "-mod=mod"
    return env


def write_overlay(outdir):
    rep = {}
    for sub, dst in (("ice", ""), ("taskloop", "internal/taskloop/")):
        for f in sorted(glob.glob(os.path.join(VERIF, "harness", sub, "*.go"))):
            base = os.path.basename(f)[:-3]
            rep[os.path.join(REPO, dst, "zz_verif_%s_test.go" % base)] = f
    path = os.path.join(outdir, "overlay.json")
    with open(path, "w") as fh:
        json.dump({"Replace": rep}, fh)
    return path


def build(pkg, race, overlay, outdir):
    name = (pkg.strip("./").replace("/", "_") or "ice") + ("-race" if race else "")
    binp = os.path.join(outdir, name + ".test")
    cmd = [go_bin(), "test", "-c", "-tags", "verif", "-vet=off", "-overlay", overlay, "-o", binp]
    if race:
        cmd.append("-race")
    cmd.append(pkg)
    t0 = time.time()
    p = subprocess.run(cmd, cwd=REPO, env=go_env(), stdout=subprocess.PIPE, stderr=subprocess.STDOUT, text=True)
    if p.returncode != 0 or not os.path.exists(binp):
        sys.stdout.write(p.stdout)
        print("HARNESS-BUILD-FAILED property build of %s (race=%s) failed; no verdict" % (pkg, race))
        sys.exit(2)
    return binp, time.time() - t0


RACE_HDR = "WARNING: DATA RACE"


def parse_races(files):
    """Return list of (sig, text). sig is built from the innermost pion/ice (non-harness)
    frame of each of the two access stacks, line numbers stripped."""
    out = []
    for f in files:
        try:
            txt = open(f, errors="replace").read()
        except OSError:
            continue
        blocks = txt.split(RACE_HDR)[1:]
        for b in blocks:
            b = b.split("==================")[0]
            # split into sections: access 1, previous access, goroutine creations
            secs = re.split(r"\n(?=(?:Previous )?(?:[Rr]ead|[Ww]rite|atomic [a-z]+) (?:at|of)|Goroutine \d+ \()", "\n" + b)
            acc = [s for s in secs if re.match(r"\n?(Previous )?(read|write|atomic)", s.strip(), re.I)]
            inners = []
            outers = []
            for s in acc[:2]:
                frames = re.findall(r"^  (\S+)\(\)\n\s+(\S+):\d+", s, re.M)
                pion = [fn for fn, fl in frames if "github.com/pion/ice" in fn and "zz_verif" not in fl and "/harness/" not in fl]
                fn_in = pion[0] if pion else (frames[0][0] if frames else "?")
                fn_out = pion[-1] if pion else (frames[-1][0] if frames else "?")
                inners.append(re.sub(r"\.func\d+(\.\d+)*$", "", fn_in.replace("github.com/pion/ice/v4", "ice")))
                outers.append(re.sub(r"\.func\d+(\.\d+)*$", "", fn_out.replace("github.com/pion/ice/v4", "ice")))
            while len(inners) < 2:
                inners.append("?")
                outers.append("?")
            pairs = sorted(zip(inners, outers))
            sig = "race:%s<->%s" % (pairs[0][0], pairs[1][0])
            out.append((sig, "entry points %s / %s\n%s%s" % (pairs[0][1], pairs[1][1], RACE_HDR, b[:6000])))
    return out


def load_known():
    known = []
    path = os.path.join(VERIF, "known_findings.txt")
    if not os.path.exists(path):
        return known
    for line in open(path):
        line = line.strip()
        m = re.match(r"known: property=(C\d+) sig=(\S+) :: (.*)$", line)
        if m:
            known.append((m.group(1), re.compile(m.group(2)), m.group(3)))
    return known


def run_children(part, binp, outdir, seed, tier, scale, replay_env):
    shards = part["shards"][tier] if not replay_env else 1
    timeout = part["timeout"][tier]
    procs = []
    for i in range(shards):
        env = go_env()
        env.update({"VERIF_SEED": str(seed), "VERIF_TIER": tier, "VERIF_SHARD": "%d/%d" % (i, shards),
                    "VERIF_OUT": outdir, "VERIF_SCALE": str(scale)})
        env.update(replay_env)
        if part.get("race"):
            env["GORACE"] = "halt_on_error=0 log_path=%s/race-%s-%d history_size=3" % (outdir, part["test"], i)
        env.update(part.get("env", {}))
        logp = os.path.join(outdir, "child-%s-%d.log" % (part["test"], i))
        fh = open(logp, "w")
        cmd = [binp, "-test.run", "^%s$" % part["test"], "-test.timeout", "%ds" % (timeout + 60), "-test.count", "1", "-test.v"]
        p = subprocess.Popen(cmd, cwd=os.path.join(REPO, part["pkg"]), env=env, stdout=fh, stderr=subprocess.STDOUT,
                             start_new_session=True)
        procs.append((i, p, logp, fh, time.time()))
    results = []
    for i, p, logp, fh, t0 in procs:
        status = "ok"
        try:
            left = max(1, timeout - (time.time() - t0))
            rc = p.wait(timeout=left)
        except subprocess.TimeoutExpired:
            status = "timeout"
            try:
                os.killpg(p.pid, signal.SIGQUIT)  # goroutine dump into the log
            except ProcessLookupError:
                pass
            try:
                rc = p.wait(timeout=20)
            except subprocess.TimeoutExpired:
                os.killpg(p.pid, signal.SIGKILL)
                rc = p.wait()
        fh.close()
        results.append((i, rc, status, logp))
    return results, shards


def main():
    args = sys.argv[1:]
    if len(args) < 1:
        print(__doc__)
        sys.exit(2)
    prop = args[0]
    tier = "quick"
    replay = None
    scale = float(os.environ.get("VERIF_SCALE", "1"))
    keep = False
    i = 1
    while i < len(args):
        if args[i] in ("quick", "thorough"):
            tier = args[i]
        elif args[i] == "--replay":
            replay = args[i + 1]
            i += 1
        elif args[i] == "--scale":
            scale = float(args[i + 1])
            i += 1
        elif args[i] == "--keep":
            keep = True
        i += 1
    if os.environ.get("VERIF_TIER") in ("quick", "thorough") and len([a for a in args if a in ("quick", "thorough")]) == 0:
        tier = os.environ["VERIF_TIER"]
    if prop not in PROPS:
        print("unknown property", prop)
        sys.exit(2)
    cfg = PROPS[prop]
    try:
        seed = int(os.environ.get("VERIF_SEED", "1"))
    except ValueError:
        seed = 1
    replay_env = {}
    if replay:
        w = json.load(open(replay))
        seed = int(w.get("seed", seed))
        tier = w.get("tier", tier)
        replay_env = {"VERIF_REPLAY": os.path.abspath(replay)}
    t_start = time.time()
    # VERIF_SCRATCH (used by mutants/seedrun.sh only): run against another tree without touching out/ and evidence/
    scratch = os.environ.get("VERIF_SCRATCH")
    outdir = os.path.join(scratch or os.path.join(VERIF, "out"), "%s-%s-%d%s" % (prop, tier, seed, "-replay" if replay else ""))
    shutil.rmtree(outdir, ignore_errors=True)
    os.makedirs(outdir, exist_ok=True)
    overlay = write_overlay(outdir)

    merged = {"evaluations": 0, "distinct": set(), "samples": [], "violations": [], "inconclusive": 0,
              "out_of_scope": 0, "counters": {}, "sets": {}, "notes": [], "parts": []}
    harness_fail = []
    bins = {}
    for part in cfg["parts"]:
        if replay and w.get("part") and w["part"] != part["test"]:
            continue
        key = (part["pkg"], bool(part.get("race")))
        if key not in bins:
            bins[key] = build(part["pkg"], key[1], overlay, outdir)
        binp, build_s = bins[key]
        res, shards = run_children(part, binp, outdir, seed, tier, scale, replay_env)
        pinfo = {"test": part["test"], "race": bool(part.get("race")), "shards": shards, "build_s": round(build_s, 1)}
        for (si, rc, status, logp) in res:
            rf = os.path.join(outdir, "result-%d.json" % si)
            rdata = None
            if os.path.exists(rf):
                try:
                    rdata = json.load(open(rf))
                except ValueError:
                    rdata = None
                os.rename(rf, os.path.join(outdir, "result-%s-%d.json" % (part["test"], si)))
            if rdata is not None and rdata.get("done"):
                merged["evaluations"] += rdata["evaluations"]
                merged["distinct"].update(rdata.get("distinct_keys") or [])
                for s in (rdata.get("samples") or []):
                    if len(merged["samples"]) < 8:
                        merged["samples"].append(s)
                for v in (rdata.get("violations") or []):
                    v["part"] = part["test"]
                    merged["violations"].append(v)
                merged["inconclusive"] += rdata.get("inconclusive", 0)
                merged["out_of_scope"] += rdata.get("out_of_scope", 0)
                for k, v in (rdata.get("counters") or {}).items():
                    merged["counters"][k] = merged["counters"].get(k, 0) + v
                for k, v in (rdata.get("sets") or {}).items():
                    merged["sets"].setdefault(k, set()).update(v)
                for n in (rdata.get("notes") or []):
                    if len(merged["notes"]) < 40:
                        merged["notes"].append(n)
            if part.get("race") and status != "timeout" and rc != 0 and rdata is not None and rdata.get("done"):
                # `go test -race` exits 1 ("race detected during execution of test") although the harness
                # completed; the races themselves are taken from the race log below, not from the exit code
                try:
                    if "race detected during execution of test" in open(logp, errors="replace").read():
                        rc = 0
                except OSError:
                    pass
            if status == "timeout" or rc != 0 or rdata is None or not rdata.get("done"):
                # child crashed, hung or failed: the harness never crashes or hangs on a
                # tree where the property holds, so this is reported as a violation with
                # the child's log (panic trace / goroutine dump) as the witness.
                tail = ""
                try:
                    tail = open(logp, errors="replace").read()
                except OSError:
                    pass
                kind = "hang" if status == "timeout" else "crash"
                m = re.search(r"^(panic: .*|fatal error: .*)$", tail, re.M)
                first = m.group(1)[:160] if m else ("exit status %s" % rc)
                if re.search(r"^--- FAIL|^FAIL", tail, re.M) and not m and status != "timeout":
                    kind = "harness-fail"
                    mm = re.search(r"^\s+\S+\.go:\d+: (.*)$", tail, re.M)
                    first = (mm.group(1)[:200] if mm else first)
                merged["violations"].append({"sig": "%s:%s" % (kind, re.sub(r"0x[0-9a-f]+|\d+", "N", first)),
                                             "msg": "%s of child %s shard %d: %s" % (kind, part["test"], si, first),
                                             "replay": logp, "part": part["test"]})
            pinfo.setdefault("exit", []).append(rc)
        if part.get("race"):
            races = parse_races(glob.glob(os.path.join(outdir, "race-%s-*" % part["test"])))
            pinfo["race_reports_raw"] = len(races)
            seen = {}
            for sig, text in races:
                seen.setdefault(sig, []).append(text)
            pinfo["race_reports_dedup"] = len(seen)
            for sig, texts in seen.items():
                wp = os.path.join(outdir, "race-witness-%d.txt" % (len(merged["violations"]) + 1))
                with open(wp, "w") as fh:
                    fh.write("%d report(s) with signature %s\n\n%s\n" % (len(texts), sig, texts[0]))
                merged["violations"].append({"sig": sig, "msg": "data race (%d reports) %s" % (len(texts), sig),
                                             "replay": wp, "part": part["test"]})
        merged["parts"].append(pinfo)

    # offline oracles (porcupine) hook
    post = cfg.get("post")
    if post:
        post(outdir, merged, go_bin(), go_env())

    known = load_known()
    real, knownhits = [], {}
    for v in merged["violations"]:
        hit = None
        for (kp, rx, what) in known:
            if kp == prop and rx.search(v["sig"]):
                hit = (rx.pattern, what)
                break
        if hit:
            knownhits.setdefault(hit, []).append(v)
        else:
            real.append(v)

    distinct_n = len(merged["distinct"])
    wall = time.time() - t_start
    cov = {
        "evaluations": int(merged["evaluations"]),
        "distinct_nontrivial": int(distinct_n),
        "rule": cfg["rule"],
        "samples": merged["samples"] or [],
        "inconclusive": int(merged["inconclusive"]),
        "out_of_scope": int(merged["out_of_scope"]),
        "counters": merged["counters"],
        "coverage_sets": {k: sorted(v)[:60] for k, v in merged["sets"].items()},
        "coverage_set_sizes": {k: len(v) for k, v in merged["sets"].items()},
        "parts": merged["parts"],
        "notes": merged["notes"],
        "known_findings_hit": [{"sig": k[0], "what": k[1], "count": len(v)} for k, v in knownhits.items()],
        "violations_detail": [{"sig": v["sig"], "msg": v["msg"][:500], "replay": v["replay"]} for v in real[:20]],
    }
    if cfg.get("exhaustive"):
        cov["exhaustive"] = bool(merged["counters"].get("exhaustive_complete", 0) > 0)
    ev = {
        "property_id": prop, "tier": tier, "seed": seed, "level": cfg["level"],
        "coverage": cov, "assumptions": cfg.get("assumptions", []),
        "wall_s": round(wall, 2), "violations": len(real),
    }
    if not replay:
        evdir = os.path.join(scratch, "evidence") if scratch else os.path.join(VERIF, "evidence")
        os.makedirs(evdir, exist_ok=True)
        with open(os.path.join(evdir, prop + ".json"), "w") as fh:
            json.dump(ev, fh, indent=1, sort_keys=True)
            fh.write("\n")

    for (pat, what), vs in knownhits.items():
        print("KNOWN-FINDING: property=%s %s (observed %d time(s), e.g. %s)" % (prop, what, len(vs), vs[0]["replay"]))
    seen_sig = set()
    for v in real:
        if v["sig"] in seen_sig:
            continue
        seen_sig.add(v["sig"])
        print("VIOLATION property=%s replay=%s" % (prop, v["replay"]))
        print("  sig=%s" % v["sig"])
        print("  %s" % v["msg"][:1500].replace("\n", "\n  "))
    print("%s %s seed=%d: evaluations=%d distinct=%d inconclusive=%d out_of_scope=%d violations=%d known=%d wall=%.1fs" % (
        prop, tier, seed, merged["evaluations"], distinct_n, merged["inconclusive"], merged["out_of_scope"], len(real),
        sum(len(v) for v in knownhits.values()), wall))
    if real:
        if not replay:
            # keep the complete output directory of a failing run (witnesses, child logs) for triage
            keepdir = os.path.join(scratch or os.path.join(VERIF, "out"), "failed", "%s-%s-%d-%d" % (prop, tier, seed, int(time.time())))
            os.makedirs(os.path.dirname(keepdir), exist_ok=True)
            try:
                shutil.copytree(outdir, keepdir, ignore=shutil.ignore_patterns("*.test"))
                print("  (run directory kept at %s)" % keepdir)
            except OSError:
                pass
        sys.exit(1)
    if not replay and (merged["evaluations"] < 1 or distinct_n < 2):
        print("NO-EVIDENCE property=%s: the monitors observed too little to give a verdict" % prop)
        sys.exit(2)
    if not keep and not replay:
        # keep logs small: drop passing children logs bigger than 1 MB
        for f in glob.glob(os.path.join(outdir, "child-*.log")):
            if os.path.getsize(f) > (1 << 20):
                os.remove(f)
        for f in glob.glob(os.path.join(outdir, "*.test")):
            os.remove(f)
    sys.exit(0)


if __name__ == "__main__":
    main()
