#!/usr/bin/env bash
set -euo pipefail
here=$(cd "$(dirname "$0")" && pwd)
repo="${REPO:-/repo}"
race=""; if [ "${1:-}" = "-race" ]; then race="-race"; shift; fi
pat="TestVfProbe${1:-}"
work="${TMPDIR:-/var/tmp}/vfprobe.$$"; mkdir -p "$work"; trap 'rm -rf "$work"' EXIT
export GOPROXY=off GOFLAGS=-mod=mod
python3 - "$work" "$repo" <<'PY'
import sys
w=sys.argv[1]; r=sys.argv[2]
s=open(r+'/agent.go').read()
n="\ttimer := time.NewTimer(math.MaxInt64)\n\ttimer.Stop()\n"
assert n in s
s=s.replace(n,"\tif vfTakeTicker != nil && vfTakeTicker(a, contact) {\n\t\t<-a.loop.Done()\n\n\t\treturn\n\t}\n\n"+n)
s=s.replace("type bindingRequest struct {","var vfTakeTicker func(a *Agent, tick func()) bool\n\ntype bindingRequest struct {",1)
open(w+'/agent_patched.go','w').write(s)
t=open(r+'/internal/taskloop/taskloop.go').read()
o="\tdone := make(chan struct{})\n\tselect {\n\tcase <-ctx.Done():"
assert o in t
t=t.replace(o,"\tdone := make(chan struct{})\n\tif VfYield != nil {\n\t\tVfYield(ctx)\n\t}\n\tselect {\n\tcase <-ctx.Done():")
t=t.replace("// ErrClosed indicates","// VfYield is a probe-only hook.\nvar VfYield func(ctx context.Context)\n\n// ErrClosed indicates")
open(w+'/taskloop_patched.go','w').write(t)
PY
{
  echo '{"Replace":{'
  echo "\"$repo/agent.go\":\"$work/agent_patched.go\","
  echo "\"$repo/internal/taskloop/taskloop.go\":\"$work/taskloop_patched.go\""
  for f in "$here"/*_test.go.txt; do
    b=$(basename "$f" .txt); cp "$f" "$work/$b"
    echo ",\"$repo/zz_vfprobe_$b\":\"$work/$b\""
  done
  echo '}}'
} > "$work/overlay.json"
cd "$repo"
GORACE="halt_on_error=0" go test $race -overlay="$work/overlay.json" -vet=off -count=1 -timeout 120s -run "$pat" -v . 2>&1 | grep -v '^ice \(WARNING\|ERROR\)' | tail -n 200
