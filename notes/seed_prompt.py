#!/usr/bin/env python3
"""Prints the prompt given to a seeding sub-agent for one property (text of the property only; nothing from /verif)."""
import json, sys
pid = sys.argv[1]
n = sys.argv[2] if len(sys.argv) > 2 else "2"
start = int(sys.argv[3]) if len(sys.argv) > 3 else 1
last = start + int(n) - 1
for l in open('/verif/properties.jsonl'):
    p = json.loads(l)
    if p['id'] == pid:
        break
print(f"""You are helping to test a verification framework by seeding realistic bugs. You work ONLY inside the directory /tmp/seedwt/{pid} , which is a scratch git worktree of the Go library pion/ice (module github.com/pion/ice/v4). Do not read or write anything under /verif or /repo, and do not look at other directories under /tmp/seedwt.

Environment: no network. Run Go like this (every shell call):  cd /tmp/seedwt/{pid} && GOFLAGS=-mod=mod GOPROXY=off go test -vet=off -count=1 ...   (do NOT set GOSUMDB or GOTOOLCHAIN). The full suite `go test -vet=off -count=1 -timeout 25m ./...` takes about 3-5 minutes; always pass -timeout.

The property (a semantic guarantee users of the library rely on):

  id: {p['id']}
  title: {p['title']}
  statement: {p['statement']}
  quantifier: {p['quantifier']['text']}
  code it is anchored in: {', '.join(p['anchors']['files'])}
  mechanisms: {'; '.join(m['name'] + ' (' + m['where'] + ')' for m in p['anchors']['mechanism'])}

Task: produce {n} DIFFERENT, independent changes (spread them over different files / mechanisms / clauses of the property; avoid the most obvious one-line inversion) to the non-test source of pion/ice (each a small patch, a few lines, looking like a plausible regression or careless refactor a real developer could make) such that, for each change:
  1. the package still compiles and the ENTIRE existing test suite still passes (run it: `go test -vet=off -count=1 -timeout 25m ./...`; a few tests are timing-flaky on a loaded machine — rerun a failing test alone to tell flakiness from a real failure);
  2. the change BREAKS the property above;
  3. the breakage needs something specific to manifest — a particular input value or unusual input, a particular interleaving/schedule, a fault or crash at a particular point, a multi-step sequence of operations, or two cooperating sites that each look fine alone — NOT something ordinary use would expose at once;
  4. you have a demonstration: a new Go test file (package ice, or the package of the changed code) that FAILS with the change applied and PASSES on the unchanged code. Keep the demonstration deterministic if at all possible (loop/retry inside the test if a schedule is needed).
Do not touch existing test files. Do not modify anything under internal/verifhook, and keep calls to verifhook.* in place (they are inert instrumentation points).

Deliver, for change k = {start}..{last}, these files in /tmp/seedwt/{pid}/_seed/k/ :
   patch.diff   — `git diff` of the source change only (must apply with `git apply` to a clean checkout of this worktree's HEAD)
   demo_test.go — the demonstration test (state at the top of the file which directory it must be copied into and the exact `go test -run` command)
   notes.md     — which clause of the property it breaks, what it needs in order to manifest, and the outputs you observed (suite pass with the change; demo fails with / passes without)
When you have written them, run `git checkout -- . && git clean -fd -e _seed` (do NOT use `git stash`: the stash is shared with other worktrees of this repository) so the worktree's tracked files are back to HEAD (leave only _seed/). Your final message: one paragraph per change (what it does, what it needs to manifest, confirmation of the three runs).""")
